#!/bin/bash
# usage: mut.sh <property> <file> <python-old> <python-new>   (dev helper: apply a textual mutation, run the check, revert)
set -u
export GOFLAGS=-mod=mod GOPROXY=off GOSUMDB=off GOTOOLCHAIN=local
P=$1; F=$2; OLD=$3; NEW=$4
python3 - "$F" "$OLD" "$NEW" <<'PY'
import sys
p,old,new=sys.argv[1:4]
s=open(p).read()
assert old in s, "pattern not found"
open(p,'w').write(s.replace(old,new,1))
PY
[ $? -ne 0 ] && exit 9
(cd /repo && go build ./... ) || { git -C /repo checkout -- .; echo "MUTANT DOES NOT BUILD"; exit 9; }
cd /verif && ./bin/vcheck -property $P ${5:-} | grep -v '^  \|^VF_' | head -12
echo "exit=${PIPESTATUS[0]}"
git -C /repo checkout -- .
