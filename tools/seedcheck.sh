#!/bin/bash
# usage: seedcheck.sh <patch.diff> <property> [<property>...]
# Applies a seeded change to /repo, runs the quick checks of the given properties, reverts. Prints one line per property.
set -u
export GOFLAGS=-mod=mod GOPROXY=off GOSUMDB=off GOTOOLCHAIN=local
P=$1; shift
git -C /repo apply "$P" || { echo "PATCH DOES NOT APPLY"; exit 9; }
# the evidence files describe the unchanged tree: keep them as they are
EVB=$(mktemp -d /tmp/vfev.XXXXXX); cp /verif/evidence/*.json $EVB/ 2>/dev/null
trap 'git -C /repo checkout -- . >/dev/null 2>&1; cp $EVB/*.json /verif/evidence/ 2>/dev/null; rm -rf $EVB' EXIT
(cd /repo && go build ./...) || { echo "MUTANT DOES NOT BUILD"; exit 9; }
for prop in "$@"; do
  out=$(cd /verif && timeout 1500 ./bin/vcheck -property $prop 2>&1)
  rc=$?
  nv=$(echo "$out" | grep -c '^VIOLATION')
  first=$(echo "$out" | grep -A1 '^VIOLATION' | grep obligation | head -1 | cut -c1-200)
  inc=$(echo "$out" | grep '^INCONCLUSIVE' | head -1 | cut -c1-200)
  echo "$prop exit=$rc violations=$nv $first $inc"
done
