#!/bin/bash
# usage: seedverify.sh <seed-dir>   (contains patch.diff, zz_seed_demo_test.go, demo_location.txt)
# Confirms in a fresh scratch worktree: builds; suite passes with the change; demo fails with it and passes without it.
set -u
export GOFLAGS=-mod=mod GOPROXY=off GOSUMDB=off GOTOOLCHAIN=local
S=$1
W=$(mktemp -d /tmp/vfwt.XXXXXX)
git -C /repo worktree add -q --detach $W HEAD || exit 9
trap 'git -C /repo worktree remove --force $W >/dev/null 2>&1; rm -rf $W' EXIT
LOC=$(head -1 $S/demo_location.txt | awk '{print $1}'); LOC=${LOC#/tmp/wt_*/}; LOC=${LOC#./}
case "$LOC" in *_test.go) LOC=$(dirname $LOC);; esac
DEMO=$(ls $S/*_test.go | head -1)
cd $W
cp $DEMO $LOC/zz_seed_demo_test.go
go test -vet=off -count=1 ./$LOC -run 'Seed|seed|Demo' >/tmp/sv_without.log 2>&1; echo "demo without change: rc=$? (want 0)"
git apply $S/patch.diff || { echo "PATCH DOES NOT APPLY"; exit 9; }
go build ./... || { echo "DOES NOT BUILD"; exit 9; }
go test -vet=off -count=1 ./$LOC -run 'Seed|seed|Demo' >/tmp/sv_with.log 2>&1; echo "demo with change: rc=$? (want non-zero)"
rm $LOC/zz_seed_demo_test.go
go test -vet=off -count=1 ./... >/tmp/sv_suite.log 2>&1; echo "existing suite with change: rc=$? (want 0)"
