#!/usr/bin/env python3
"""Regenerates /verif/MANIFEST.json from the table below (kept next to the
property table in cmd/vcheck/table.go)."""
import json, os

ROOT = os.path.dirname(os.path.dirname(os.path.abspath(__file__)))

ENV = "GOFLAGS=-mod=mod GOPROXY=off GOSUMDB=off GOTOOLCHAIN=local"
TECH = ("bounded symbolic execution of /repo's go/ssa (own SSA->SMT-LIB2 executor), assertions decided by "
        "z3/cvc5 over symbolic strings/ints/bools; counterexamples replayed natively with go test -overlay")

claimed = {
    "C01": dict(
        level="other",
        text="Bounded symbolic execution of the whole post-YAML pipeline (validate, compile, output validators, templates) with the repository's templates interpreted symbolically from their parse trees (the interpreter is compared byte-for-byte with text/template on every run). The emitted text becomes a skeleton whose symbolic holes are placeholders; it is parsed with go/parser and the solver decides, for every feasible path: the text is syntactically valid Go for every value of the holes that validation admits, every runtime selector it uses exists in the pinned runtime, generated method names are identifiers, pairwise distinct and distinct from the embedded container's API, the getter error path is valid for value types, the packages the generated code itself needs resolve to themselves under every accepted alias table, parameter literals are Go literals, comments cannot be broken. In addition, per feasible path and as a concrete evaluation rather than a solver query, the whole skeleton is type-checked with go/types against the pinned runtime, with the user's packages and the symbols the configuration names declared as fixtures (types where used as types, values elsewhere) and unused imports pruned as goimports does. The generated program is not run: 'init() does not panic' is claimed through the obligation that the asserted interface lists exactly the generated methods (level: other). Found and fixed: D5 (scope setters), D6 (nil for value types), D7; recorded: D3 (alias captures the template's own imports), D8 (non-finite floats).",
        note="Trusted: template interpreter (validated each run), go/parser and go/types on the skeleton, exporter contract, gofmt as identity and goimports as unused-import pruning. Outside: user Go text inside %fn(args)%, keyword/predeclared spellings, gofmt stability, go build with the user's real packages.",
        design="5.1"),
    "C17": dict(
        level="model_checking",
        text="The same configuration is taken through validate, compile and the templates in both modes; on the two recovered definitions the solver decides: gontainerstub constraint only in the stub, same package / type / constructor, the same getter methods with hole-for-hole identical signatures, every stub body is panic(\"stub\"), no value, constructor, decorator or function of the user's packages occurs in the stub text, and the accept/reject decision is equal; both files type-check (go/types, fixtures for the user's packages); and the real build command gives the same verdict, diagnostics and file effect with and without --stub on a menu of 20 configurations x the ignore flags.",
        note="Trusted: as C01. Not run: go build with and without the tag.",
        design="5.17"),
    "C02": dict(
        level="model_checking",
        text="Generator side of the property: the six-strategy argument chain, the service compile step and its helpers are executed symbolically; every argument form must compile to the dependency the documentation names (literal of the same type, @service, !tagged, !value, $gontainer, else a parameter pattern), first match wins, and arguments / calls (with wither flag) / fields keep the declared order and values. That the runtime then executes a definition as documented is the external library's contract; it is represented by the engine's runtime-container model only where the generated getters of a container built by the current tree are executed (a creatable service, and one that fails because it needs a todo service).",
        note="Trusted: exporter stub, the wiring copied from gontainer_resolvers.yaml in the harness, solvers. Unquoted imports followed by dotted values are assumed away (ambiguous in the grammar itself).",
        design="5.2"),
    "C04": dict(
        level="model_checking",
        text="Generator side: Tag.UnmarshalYAML over every YAML shape, tag names and priorities (arbitrary ints) carried unchanged, !tagged arguments, decorators kept in declaration order with tag, function and arguments in order — all as solver obligations over symbolic names. Ordering by priority and decoration semantics are the runtime library's contract.",
        note="Trusted: exporter stub, solvers. Merge order of decorators across files is C09.",
        design="5.4"),
    "C13": dict(
        level="model_checking",
        text="The getter/must-getter truth table (getter absent/empty/set x must_getter x default_must_getter), the meta name defaults and the collision-freedom of G, GInContext, MustG, MustGInContext against the method set and embedded field of the pinned runtime type are decided symbolically. Found and fixed: duplicate getters and the getter 'Container' were accepted (D7).",
        note="Trusted: method set computed with go/types from the pinned runtime module; the getter templates belong to the template stage.",
        design="5.13"),
    "C15": dict(
        level="model_checking",
        text="Generator side: a todo service compiles to {name, todo} whatever its other attributes and counts as declared; a %todo(args)% parameter compiles to a provider calling paramTodo with the arguments verbatim and counts as declared; every string parameter is emitted as a provider function literal (lazy), never as an evaluated value; a reference to another parameter compiles to a run-time look-up and to nothing of that parameter's definition; the _paramTodo / _concatenateChunks helpers the templates emit return the documented error, also inside multi-chunk patterns. Override histories are the runtime library's contract.",
        note="Trusted: exporter stub, solvers.",
        design="5.15"),
    "C03": dict(
        level="model_checking",
        text="Every feasible path of the chunker, tokenizer and token factories within the stated string-length bound is explored symbolically from the current SSA; each assertion is an unsat query (exhaustive within the bound over the full Unicode alphabet). The run-time side is covered where it is the generator's own code: the helpers the templates emit (_getEnv, _getEnvInt, _paramTodo, _concatenateChunks) are executed as SSA from a container the current tree generates at the start of each run, against the reference functions printed in docs/META.md; parameters compile independently of each other; on the shipped wiring only the %...% notation is special in parameters. How the runtime evaluates the emitted closures is outside.",
        note="Trusted: go/ssa front end, the gosmt executor, z3/cvc5; stubs: exporter -> uninterpreted Q. Bounds in evidence.coverage.bounds.",
        design="5.3"),
    "C05": dict(
        level="model_checking",
        text="ValidateServicesScopes and BuildDependencyGraph are executed symbolically over a small configuration whose names and scope values are symbolic; the verdict must equal a reachability reference written from the property statement (shared ->+ contextual), with one diagnostic per offending pair naming both services. Also: the declared scopes reach the compiled output from the YAML level (todo services included), the template maps each scope keyword to the matching runtime setter, and every creation method is emitted as a function the runtime calls per instantiation (never a value evaluated once). Generator side only: instance identity over Get histories is the runtime library's job.",
        note="Trusted: abstract model of gontainer-helpers/v3/graph (exact reachability, order of Deps not modelled), solvers. Bounds in evidence.",
        design="5.5"),
    "C06": dict(
        level="model_checking",
        text="ValidateParamsExist / ValidateServicesExist executed symbolically with a symbolic reference placed in each of the five positions a reference can occur in; accepted iff declared, one diagnostic per dangling reference naming referrer and missing name, todo elements count as declared. The same from the YAML level through the compiler (references alone, inside a multi-chunk pattern, after %%, twice in one pattern), with 0-2 declared parameters, referrers created by a constructor or a value, and leading arguments that refer to nothing; every declared parameter and service is registered in the generated constructor. Found and fixed: decorator arguments were not walked for parameters (D4).",
        note="Trusted: executor, solvers; the link between dependency lists and emitted code is asserted in C03 (reference tokens) and C02.",
        design="5.6"),
    "C07": dict(
        level="model_checking",
        text="BuildDependencyGraph, ValidateCircularDeps and the runtime's container/internal/graph id scheme are executed symbolically; 'rejected iff the dependency relation of the statement is cyclic' is decided by the solver against a transitive-closure reference over symbolic names, including self-loops, tag and decorator edges (any number of decorators), parameter edges, two references per list, services created by a constructor or a value, names shared across kinds, and parameter cycles from the YAML level in every pattern form.",
        note="Trusted: abstract model of gontainer-helpers/v3/graph (gonum cycle enumeration summarised as: non-empty iff cyclic, a cycle through every node on one); replays of counterexamples run the real gonum code.",
        design="5.7"),
    "C08": dict(
        level="model_checking",
        text="2-safety over map iteration orders: every range-over-map statement in the repository (inventory regenerated from the SSA on each run; an uncovered site makes the check inconclusive) is executed twice under independently chosen permutations of the map's entries and results, diagnostics and side-effect order must be equal for all pairs of orders. Found and fixed: alias lookup (D2), meta import/function diagnostics (D9a), duplicate-pattern diagnostics (D9b).",
        note="Trusted: permutation model of Go's map iteration (all orders of <= 3-4 entries), collaborators of compile steps are recording mocks; environment variables and cwd are not read by repo code.",
        design="5.8"),
    "C09": dict(
        level="model_checking",
        text="input.Merge and its helpers executed symbolically on three symbolic inputs: associativity, identity of the empty file and the per-attribute laws (later scalar wins, maps united with later values winning, non-empty arguments replace, calls/tags/decorators append) are solver obligations over all nil-patterns and symbolic contents within the bound.",
        note="Trusted: executor, solvers. The file-order fold of StepReadConfig is checked under C10's environment stubs (os.ReadFile + yaml.Unmarshal or os.Open + yaml.Decoder, files without any YAML document included); byte-identity of split vs unsplit output follows from these laws plus C08 and is not rendered.",
        design="5.9"),
    "C10": dict(
        level="model_checking",
        text="The real RunE of `gontainer build` is executed symbolically on the wiring as shipped (internal/gontainer.New runs on a model of the runtime container), over a schedule of symbolic faults (glob/read/YAML/gofmt/goimports/write), file layouts (incl. a file under two patterns, empty glob), configurations of every defect class and --stub/--quiet. Asserted: exit 0 iff exactly one successful write of the complete text as the last effect; otherwise nothing written, a numbered list with as many lines as the failing step's count; --quiet prints nothing and changes neither verdict nor file effect (2-safety, under every combination of --stub and the two ignore flags). The flags reach the command through cobra's ParseFlags as long-form arguments, so what flag parsing itself prints (deprecation notices) is part of the observed output.",
        note="Trusted: environment stubs (all-or-nothing WriteFile; template executor opaque; gofmt/goimports fail-or-identity), cobra/pflag/color stubs, the runtime-container model (checked every run: the whole command's stdout must equal the native run's). Short-hand flags, required-flag enforcement and main's exit-code mapping are outside.",
        design="5.10"),
    "C12": dict(
        level="model_checking",
        text="Panic-, bounds-, nil- and unwinding obligations are attached to every instruction the engine executes; dedicated harnesses feed the custom YAML unmarshalers every value tree (depth 2) and decoder failure, and run validate -> compile -> output validators with arbitrary strings and any-typed values in each position, plus the aligned printer for all shipped step names and depths. Also the import alias code and the read step on arbitrary short strings, and the output-file contract of C10. Loops steered by the input have an unwinding bound; outrunning it is a non-termination candidate replayed natively under a deadline. Reaching the end on every feasible path is the claim: total after YAML decoding, up to the stubs.",
        note="Trusted: yaml.v3's own parser, gonum, text/template, go/format are behind stubs, so arbitrary bytes before decoding are outside. Bounds: strings <= 3 (quick) / 4 (thorough).",
        design="5.12"),
    "C16": dict(
        level="model_checking",
        text="On the shipped wiring (as C10) each of 20 configurations is run without flags and with symbolic --ignore-missing-params / --ignore-missing-services; the diagnostics with flags must equal the flag-less diagnostics minus exactly the ignored class, in the same order; accepted iff that remainder is empty; a configuration accepted without flags yields the same written text under any flags. Besides this differential relation the verdict and the diagnostic classes are checked against the defect classes each configuration has by construction (rejected iff a class that is not ignored remains; cycle and scope diagnostics present iff the defect is).",
        note="As C10. The instance switched by Active is the instance the runner holds because the model caches decorated services like the runtime does (validated against the native run).",
        design="5.16"),
    "C11": dict(
        level="model_checking",
        text="Each grammar position (24 of them) gets one unconstrained symbolic string; the real validator (and the whole default validator) is executed symbolically and 'accepted iff in the documented language' is an equivalence the solver must prove for every string up to the bound, over all of Unicode. A one-character regex edit changes the RegLan term that is regenerated from the compiled program on every run. Joint reporting and the todo exemption are asserted the same way.",
        note="Trusted: the reference grammar written in the harness from docs/ (it is a second, independent copy of the language), regexp/syntax -> RegLan translation, solvers. Node-kind errors inside yaml.v3 are behind the YAML stub.",
        design="5.11"),
    "C14": dict(
        level="model_checking",
        text="The alias table (RegisterPrefixAlias/Alias/decorateImport/Imports) is executed symbolically with symbolic aliases, paths and references under every iteration order of its maps and compared with a segment-wise reference resolver; equal packages <=> equal local names and identifier-shaped local names are solver obligations. Found and fixed: prefix matching without a segment boundary (D2).",
        note="Trusted: ReplaceAllString contract, solvers; bounds: 2 aliases, strings <= 3 quick / 5 thorough. Pruning of unused imports by x/tools/imports is outside.",
        design="5.14"),
    "C18": dict(
        level="model_checking",
        text="Version.UnmarshalYAML, NewVersionValidator, ValidateVersion and golang.org/x/mod/semver itself are executed as SSA over character-wise symbolic B and V; the accept/reject truth table of the statement is asserted for every (B,V) in the bound (symbolic suffixes, and four concrete prerelease/build forms on either side) and every counterexample is replayed natively; main.buildVersion is executed over an arbitrary ASCII main.version (a v-prefixed semantic version reaches the gate without the v). Found and fixed: every declared version was rejected (D1).",
        note="Trusted: executor, solvers. Numerals 0..9 for major/patch and 0..99 for minor, suffix <= 1 (quick) / 2 (thorough) ASCII characters; non-ASCII versions are outside (ASCII guard).",
        design="5.18"),
}

not_applicable = {
    "C19": "single concrete computation on one fixed input through yaml.v3/text/template/go/format: nothing to quantify symbolically (DESIGN §6)",
    "C20": "goroutine schedules of generated code inside the runtime library's locks; no symbolic engine for Go concurrency in this image (DESIGN §6)",
}

PENDING = "check not built yet in this session (planned, see DESIGN §5); not claimed until it runs clean"

def main():
    checks = []
    for pid in sorted(claimed):
        c = claimed[pid]
        checks.append({
            "property_id": pid,
            "quick_cmd": f"cd /verif && {ENV} ./bin/vcheck -property {pid} -tier quick",
            "thorough_cmd": f"cd /verif && {ENV} ./bin/vcheck -property {pid} -tier thorough",
            "evidence_file": f"/verif/evidence/{pid}.json",
            "replay_cmd_template": f"cd /verif && {ENV} ./bin/vcheck -replay {{path}}",
            "engine": "gosmt",
            "level_claimed": {"category": c["level"], "text": c["text"], "design_ref": "DESIGN.md §" + c["design"]},
            "level_note": c["note"],
            "technique": TECH,
        })
    na = []
    for i in range(1, 21):
        pid = f"C{i:02d}"
        if pid in claimed:
            continue
        na.append({"property_id": pid, "reason": not_applicable.get(pid, PENDING)})
    m = {
        "version": 1,
        "setup_cmd": f"cd /verif && {ENV} go build -o bin/vcheck ./cmd/vcheck",
        "hooks": {
            "guard": "verif",
            "enable": "none needed: harnesses enter the build through go/packages and go test overlays (zz_vf_*.go); /repo is never written by the checks",
            "baseline_off_cmd": "cd /repo && go test -vet=off -count=1 -timeout 25m ./...",
            "source_commits": [],
            "add_only": True,
        },
        "engines": [{
            "name": "gosmt", "path": "/verif/engine",
            "serves_properties": sorted(claimed),
            "kind_free_text": "forking symbolic executor over go/ssa emitting SMT-LIB2 (String/Int/Bool, RegLan) for z3 4.8.12, z3 5.1.0, cvc5 1.0.3",
        }],
        "checks": checks,
        "not_applicable": na,
        "notes": "exit 0 = every obligation unsat on every feasible path within the bounds; exit 1 = replay-confirmed VIOLATION; exit 2 = inconclusive (solver unknown, unwinding insufficient, unsupported construct, unconfirmed counterexample) and no VIOLATION line.",
    }
    with open(os.path.join(ROOT, "MANIFEST.json"), "w") as f:
        json.dump(m, f, indent=1)
        f.write("\n")

if __name__ == "__main__":
    main()
