#!/bin/bash
# usage: seedbatch.sh <suffix> <prop> [<prop>...]   e.g. seedbatch.sh e C01 C02
# For each property P: verifies /tmp/seed_P<suffix> in a scratch worktree and runs P's quick check against it.
set -u
SUF=$1; shift
for P in "$@"; do
  D=/tmp/seed_${P}${SUF}
  [ -f $D/patch.diff ] || { echo "== ${P}${SUF}: no deliverable"; continue; }
  v=$(/verif/tools/seedverify.sh $D 2>&1 | grep -v conda | tr '\n' ' ')
  c=$(/verif/tools/seedcheck.sh $D/patch.diff $P 2>&1 | grep -v conda | tr '\n' ' ')
  echo "== ${P}${SUF}: $v"
  echo "   $c"
done
