#!/usr/bin/env python3
# Regenerates the table of DESIGN.md section 12.5 from seeded/*/meta.json.
import json, glob, os, re
root = os.path.dirname(os.path.dirname(os.path.abspath(__file__)))
rows = []
for m in sorted(glob.glob(root + '/seeded/*/meta.json')):
    d = json.load(open(m))
    sid = os.path.basename(os.path.dirname(m))
    esc = lambda s: s.replace('|', '\\|')
    rows.append('| %s | %s | %s | %s | %s |' % (sid, d['property'], esc(d['needs_to_manifest']), esc('; '.join(d['caught_by'])), esc(d.get('note', ''))))
hdr = '| seed | property | needs, to manifest | caught by | note |\n|------|----------|--------------------|-----------|------|\n'
p = root + '/DESIGN.md'
s = open(p).read()
a = s.index('| seed | property |')
b = s.index('\n\n', a)
s = s[:a] + hdr + '\n'.join(rows) + s[b:]
open(p, 'w').write(s)
print(len(rows), 'rows')
