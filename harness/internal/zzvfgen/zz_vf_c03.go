package zzvfgen

import (
	"errors"
	"strings"
)

// The run-time helpers of a generated container (_getEnv, _getEnvInt,
// _paramTodo, _concatenateChunks): this package is the container the current
// tree generates, at the start of every run, for a small fixed configuration
// (cmd/vcheck freshCfg); it exists only in the overlay. The helpers do not
// depend on the configuration; they are executed as SSA against the reference
// functions printed in docs/META.md.

func init() {
	vfRegister("VF_C03_getenv", VF_C03_getenv)
	vfRegister("VF_C03_getenvint", VF_C03_getenvint)
	vfRegister("VF_C03_paramtodo", VF_C03_paramtodo)
	vfRegister("VF_C03_concat", VF_C03_concat)
}

// environment: os.LookupEnv and strconv.Atoi are stubs over harness state
var (
	vfEnvKey string
	vfEnvVal string
	vfEnvOK  bool
	vfAtoiN  int
	vfAtoiOK bool
)

func vfStub_os_LookupEnv(key string) (string, bool) {
	if key == vfEnvKey {
		return vfEnvVal, vfEnvOK
	}
	return "", false
}

// os.Getenv is os.LookupEnv without the flag (the templates use LookupEnv; a
// change to Getenv must still be executable)
func vfStub_os_Getenv(key string) string {
	v, _ := vfStub_os_LookupEnv(key)
	return v
}

func vfStub_strconv_Atoi(s string) (int, error) {
	if vfAtoiOK {
		return vfAtoiN, nil
	}
	return 0, errors.New("strconv.Atoi: parsing " + vfQuote(s) + ": invalid syntax")
}

func vfStr(name string, n int) string {
	s := vfString(name)
	vfAssume(vfRuneLen(s) <= n)
	return s
}

func vfSetEnv() string {
	vfEnvKey, vfEnvVal, vfEnvOK = vfStr("key", 3), vfStr("val", 3), vfBool("set")
	return vfEnvKey
}

// VF_C03_getenv: docs/META.md `env`.
func VF_C03_getenv() {
	c := &Gontainer{}
	key := vfSetEnv()
	var def []string
	n := vfChoice("ndef", 3)
	for i := 0; i < n; i++ {
		def = append(def, vfStr("def", 3))
	}
	got, err := c._getEnv(key, def...)
	switch {
	case vfEnvOK:
		vfAssert(err == nil && got == vfEnvVal, "env: the variable's value when it exists")
	case n > 0:
		vfAssert(err == nil && got == def[0], "env: the first default when the variable does not exist")
	default:
		vfAssert(err != nil && got == "", "env: an error when the variable does not exist and no default is given")
		if err != nil {
			vfAssert(strings.Contains(err.Error(), "environment variable "+vfQuote(key)+" does not exist"), "env: the error names the variable")
		}
	}
	vfReach("C03_getenv")
}

// VF_C03_getenvint: docs/META.md `envInt`.
func VF_C03_getenvint() {
	c := &Gontainer{}
	key := vfSetEnv()
	vfAtoiN, vfAtoiOK = vfInt("atoi"), vfBool("atoiOK")
	var def []int
	n := vfChoice("ndef", 3)
	for i := 0; i < n; i++ {
		def = append(def, vfInt("def"))
	}
	got, err := c._getEnvInt(key, def...)
	switch {
	case vfEnvOK && vfAtoiOK:
		vfAssert(err == nil && got == vfAtoiN, "envInt: the variable's integer value")
	case vfEnvOK:
		vfAssert(err != nil && got == 0, "envInt: an error when the value is not an integer")
		if err != nil {
			vfAssert(strings.Contains(err.Error(), "cannot cast env("+vfQuote(key)+") to int"), "envInt: the error names the variable")
		}
	case n > 0:
		vfAssert(err == nil && got == def[0], "envInt: the first default when the variable does not exist")
	default:
		vfAssert(err != nil && got == 0, "envInt: an error when the variable does not exist and no default is given")
		if err != nil {
			vfAssert(strings.Contains(err.Error(), "environment variable "+vfQuote(key)+" does not exist"), "envInt: the error names the variable")
		}
	}
	vfReach("C03_getenvint")
}

// VF_C03_paramtodo: docs/META.md `todo`.
func VF_C03_paramtodo() {
	c := &Gontainer{}
	var ps []string
	n := vfChoice("n", 3)
	for i := 0; i < n; i++ {
		ps = append(ps, vfStr("msg", 3))
	}
	v, err := c._paramTodo(ps...)
	vfAssert(v == nil && err != nil, "todo: always an error, never a value")
	if err != nil {
		if n > 0 {
			vfAssert(err.Error() == ps[0], "todo: the given message")
		} else {
			vfAssert(err.Error() == "parameter todo", "todo: 'parameter todo' by default")
		}
	}
	vfReach("C03_paramtodo")
}

// VF_C03_concat: a multi-chunk pattern concatenates the string casts of its
// chunks in order and stops at the first failing chunk.
func VF_C03_concat() {
	c := &Gontainer{}
	n := 1 + vfChoice("n", 3)
	vals := make([]any, n)
	fails := make([]bool, n)
	fs := make([]func() (interface{}, error), n)
	for i := 0; i < n; i++ {
		switch vfChoice("kind", 4) {
		case 0:
			vals[i] = vfStr("s", 2)
		case 1:
			vals[i] = vfInt("i")
		case 2:
			vals[i] = vfBool("b")
		case 3:
			vals[i] = nil
		}
		fails[i] = vfBool("fails")
		i := i
		fs[i] = func() (interface{}, error) {
			if fails[i] {
				return nil, errors.New("chunk fails")
			}
			return vals[i], nil
		}
	}
	got, err := c._concatenateChunks(fs[0], fs[1:]...)
	want := ""
	failed := false
	for i := 0; i < n && !failed; i++ {
		if fails[i] {
			failed = true
			break
		}
		switch v := vals[i].(type) {
		case string:
			want += v
		case int:
			want += vfItoa(v)
		case bool:
			if v {
				want += "true"
			} else {
				want += "false"
			}
		case nil:
			want += "nil"
		}
	}
	if failed {
		vfAssert(err != nil && got == "", "concatenation: a failing chunk fails the parameter")
	} else {
		vfAssert(err == nil && got == want, "concatenation: the documented string casts, in order")
	}
	vfReach("C03_concat")
}
