package zzvfgen

func init() { vfRegister("VF_C02_getter_runtime", VF_C02_getter_runtime) }

// VF_C02_getter_runtime: the generated getters on the container the current
// tree generates: a service that cannot be created (it depends on a todo service) surfaces
// as an error from its getter, never as an object; a service that can be
// created is returned converted to its declared type.
func VF_C02_getter_runtime() {
	c := NewGontainer()
	v, err := c.GetFailing()
	vfAssert(err != nil, "a service whose creation fails (it needs a todo service) surfaces as an error from its getter")
	vfAssert(v == nil, "... and never as an object")
	_, gerr := c.Get("failing")
	vfAssert(gerr != nil, "Get reports the same failure")
	ok, err3 := c.GetOk()
	vfAssert(err3 == nil && ok != nil, "a service that can be created is returned by its getter")
	if ok != nil {
		vfAssert(ok.Error() == "boom", "... as the object its constructor built from the declared arguments")
	}
	vfReach("C02_getter_runtime")
}
