package zzvfgen

import "errors"

func init() { vfRegister("VF_C15_todo_runtime", VF_C15_todo_runtime) }

// VF_C15_todo_runtime: at run time a todo parameter always yields the
// documented error - the given message, or "parameter todo" - and never a
// value, also when it is one chunk of a longer pattern: the pattern then fails
// with that error instead of yielding a partial string.
func VF_C15_todo_runtime() {
	c := &Gontainer{}
	var msg []string
	nm := vfChoice("nmsg", 3)
	for i := 0; i < nm; i++ {
		msg = append(msg, vfStr("msg", 3))
	}
	wantErr := "parameter todo"
	if nm > 0 {
		wantErr = msg[0]
	}
	n := 1 + vfChoice("n", 3)
	fs := make([]func() (interface{}, error), n)
	firstBad := -1
	wantFirst := ""
	for i := 0; i < n; i++ {
		switch vfChoice("kind", 3) {
		case 0:
			lit := vfStr("lit", 2)
			fs[i] = func() (interface{}, error) { return lit, nil }
		case 1:
			fs[i] = func() (interface{}, error) { return c._paramTodo(msg...) }
			if firstBad < 0 {
				firstBad, wantFirst = i, wantErr
			}
		case 2:
			fs[i] = func() (interface{}, error) { return nil, errors.New("other failure") }
			if firstBad < 0 {
				firstBad, wantFirst = i, "other failure"
			}
		}
	}
	got, err := c._concatenateChunks(fs[0], fs[1:]...)
	if firstBad >= 0 {
		vfAssert(err != nil, "a pattern with a todo (or failing) chunk fails")
		vfAssert(got == "", "a failing pattern yields no partial value")
		if err != nil {
			vfAssert(err.Error() == wantFirst, "the pattern fails with the error of its first failing chunk: the documented todo error")
		}
	} else {
		vfAssert(err == nil, "a pattern of literals evaluates")
	}
	vfReach("C15_todo_runtime")
}
