package token

import "strings"

func init() {
	vfRegister("VF_C03_chunks", VF_C03_chunks)
}

// refChunks: DESIGN A.1 — left-to-right pairing of % delimiters.
func refChunks(s string) (chunks []string, bad bool) {
	if s == "" {
		return []string{""}, false
	}
	opened := false
	cur := ""
	for _, r := range s {
		c := string(r)
		if c != "%" {
			cur += c
			continue
		}
		if !opened {
			if cur != "" {
				chunks = append(chunks, cur)
			}
			cur = "%"
			opened = true
			continue
		}
		chunks = append(chunks, cur+"%")
		cur = ""
		opened = false
	}
	if opened {
		return nil, true
	}
	if cur != "" {
		chunks = append(chunks, cur)
	}
	return chunks, false
}

func vfEqStrings(a, b []string) bool {
	if len(a) != len(b) {
		return false
	}
	ok := true
	for i := range a {
		ok = ok && a[i] == b[i]
	}
	return ok
}

// VF_C03_chunks: Chunker.Chunks against the reference pairing, for every
// string up to the bound over the full alphabet.
func VF_C03_chunks() {
	s := vfString("s")
	vfAssume(vfRuneLen(s) <= vfBound("chunks.len", 4, 6))
	got, err := NewChunker().Chunks(s)
	want, bad := refChunks(s)
	vfAssert(bad == (err != nil), "Chunks errors iff a % is unpaired")
	if !bad && err == nil {
		vfAssert(vfEqStrings(got, want), "chunks equal the left-to-right pairing")
		vfAssert(strings.Join(got, "") == s, "chunks concatenate to the input")
	}
	vfReach("C03_chunks")
}
