package token

import "strings"

func init() {
	vfRegister("VF_C03_chunks", VF_C03_chunks)
}

// refChunks: DESIGN A.1 — left-to-right pairing of % delimiters.
func refChunks(s string) (chunks []string, bad bool) {
	if s == "" {
		return []string{""}, false
	}
	opened := false
	cur := ""
	for _, r := range s {
		c := string(r)
		if c != "%" {
			cur += c
			continue
		}
		if !opened {
			if cur != "" {
				chunks = append(chunks, cur)
			}
			cur = "%"
			opened = true
			continue
		}
		chunks = append(chunks, cur+"%")
		cur = ""
		opened = false
	}
	if opened {
		return nil, true
	}
	if cur != "" {
		chunks = append(chunks, cur)
	}
	return chunks, false
}

func vfEqStrings(a, b []string) bool {
	if len(a) != len(b) {
		return false
	}
	ok := true
	for i := range a {
		ok = ok && a[i] == b[i]
	}
	return ok
}

// VF_C03_chunks: Chunker.Chunks against the reference pairing, for every
// string up to the bound over the full alphabet.
func VF_C03_chunks() {
	s := vfString("s")
	vfAssume(vfRuneLen(s) <= vfBound("chunks.len", 4, 9))
	got, err := NewChunker().Chunks(s)
	vfObserve("chunks", strings.Join(got, "\x1f"))
	if err != nil {
		vfObserve("err", err.Error())
	}
	want, bad := refChunks(s)
	vfAssert(bad == (err != nil), "Chunks errors iff a % is unpaired")
	if !bad && err == nil {
		vfAssert(vfEqStrings(got, want), "chunks equal the left-to-right pairing")
		vfAssert(strings.Join(got, "") == s, "chunks concatenate to the input")
	}
	vfReach("C03_chunks")
}

// ---------------------------------------------------------------------------
// token factories

type vfAliaser struct{}

func (vfAliaser) Alias(p string) string { return "ALIAS<" + p + ">" }

// vfFactory wires the strategies in the documented order: registered
// functions first (env, envInt, todo and one user function), then %%,
// reference, unexpected function, unexpected token, string.
func vfFactory(userFn string) *StrategyFactory {
	f := NewStrategyFactory(
		FactoryPercentMark{},
		FactoryReference{},
		FactoryUnexpectedFunction{},
		FactoryUnexpectedToken{},
		FactoryString{},
	)
	r := NewFuncRegisterer(f, vfAliaser{})
	r.RegisterFunc("env", "", "getEnv")
	r.RegisterFunc("envInt", "", "getEnvInt")
	r.RegisterFunc("todo", "", "paramTodo")
	if userFn != "" {
		r.RegisterFunc(userFn, "my/pkg", "UserFn")
	}
	return f
}

const (
	refLiteral = iota
	refPercent
	refCall
	refReference
	refErrFunc
	refErrToken
)

// Documented grammars (docs/PARAMETERS.md, docs/META.md), written
// independently of internal/pkg/regex.
const (
	docGoIdent   = `\A[A-Za-z][A-Za-z0-9_]*\z`
	docParamName = `\A[A-Za-z]([._-]?[A-Za-z0-9])*\z`
	docNoNewline = `\A[^\n]*\z`
)

// vfInner strips the surrounding % of a chunk of at least two runes.
func vfInner(c string) (string, bool) {
	if vfRuneLen(c) < 2 || !strings.HasPrefix(c, "%") || !strings.HasSuffix(c, "%") {
		return "", false
	}
	return strings.TrimSuffix(strings.TrimPrefix(c, "%"), "%"), true
}

// vfCallOf: inner == f "(" args ")" with args free of newlines.
func vfCallOf(inner, f string) (args string, ok bool) {
	if !strings.HasPrefix(inner, f+"(") || !strings.HasSuffix(inner, ")") {
		return "", false
	}
	if vfRuneLen(inner) < vfRuneLen(f)+2 {
		return "", false
	}
	args = strings.TrimSuffix(strings.TrimPrefix(inner, f+"("), ")")
	if !vfInRe(args, docNoNewline) {
		return "", false
	}
	return args, true
}

// refKind: DESIGN A.2.
func refKind(c string, fns []string) (kind int, name string, args string) {
	inner, wrapped := vfInner(c)
	if wrapped {
		for _, f := range fns {
			if a, ok := vfCallOf(inner, f); ok {
				return refCall, f, a
			}
		}
		if c == "%%" {
			return refPercent, "", ""
		}
		if vfInRe(inner, docParamName) {
			return refReference, inner, ""
		}
		if vfInRe(inner, `\A[A-Za-z][A-Za-z0-9_]*\([^\n]*\)\z`) {
			return refErrFunc, "", ""
		}
		return refErrToken, "", ""
	}
	return refLiteral, "", ""
}

func init() {
	vfRegister("VF_C03_kind", VF_C03_kind)
	vfRegister("VF_C03_gocode", VF_C03_gocode)
	vfRegister("VF_C03_double", VF_C03_double)
	vfRegister("VF_C03_tokenize", VF_C03_tokenize)
}

// VF_C03_kind: every single chunk is classified as documented.
func VF_C03_kind() {
	c := vfString("chunk")
	u := vfString("userFn")
	n := vfBound("kind.len", 6, 10)
	vfAssume(vfRuneLen(c) <= n)
	vfAssume(vfRuneLen(u) <= 3 && vfInRe(u, docGoIdent))
	vfAssume(u != "env" && u != "envInt" && u != "todo")
	// a chunk as the chunker produces it: no % inside, or %...% with none inside
	vfAssume(vfInRe(c, `\A([^%]*|%[^%]*%)\z`))

	tok, err := vfFactory(u).Create(c)
	vfObserve("code", tok.Code)
	if err != nil {
		vfObserve("err", err.Error())
	}
	kind, name, args := refKind(c, []string{"env", "envInt", "todo", u})

	switch kind {
	case refErrFunc:
		vfAssert(err != nil, "unknown function is rejected")
		if err != nil {
			vfAssert(strings.Contains(err.Error(), "unexpected function"), "diagnostic says unexpected function")
			vfAssert(strings.Contains(err.Error(), vfQuote(c)), "diagnostic names the token")
		}
	case refErrToken:
		vfAssert(err != nil, "malformed %token% is rejected")
		if err != nil {
			vfAssert(strings.Contains(err.Error(), "unexpected token"), "diagnostic says unexpected token")
			vfAssert(strings.Contains(err.Error(), vfQuote(c)), "diagnostic names the token")
		}
	default:
		vfAssert(err == nil, "well-formed chunk is accepted")
	}
	if err == nil {
		switch kind {
		case refLiteral:
			vfAssert(tok.Kind == KindString && len(tok.DependsOn) == 0, "literal: string token without dependency")
			vfAssert(strings.Contains(tok.Code, "return "+vfQuote(c)+", nil"), "literal: code returns the quoted chunk")
		case refPercent:
			vfAssert(tok.Kind == KindString && len(tok.DependsOn) == 0, "%%: string token without dependency")
			vfAssert(strings.Contains(tok.Code, "return \"%\", nil"), "%%: code returns a single %")
		case refReference:
			vfAssert(tok.Kind == KindReference, "reference: kind")
			vfAssert(len(tok.DependsOn) == 1 && tok.DependsOn[0] == name, "reference: depends on exactly the named parameter")
			vfAssert(strings.Contains(tok.Code, "getParam("+vfQuote(name)+")"), "reference: code reads the named parameter")
		case refCall:
			vfAssert(tok.Kind == KindFunc && len(tok.DependsOn) == 0, "call: func token without dependency")
			goFn := "ALIAS<my/pkg>.UserFn"
			switch name {
			case "env":
				goFn = "getEnv"
			case "envInt":
				goFn = "getEnvInt"
			case "todo":
				goFn = "paramTodo"
			}
			if args == "" {
				vfAssert(strings.Contains(tok.Code, "callProvider("+goFn+")"), "call: provider called without arguments")
			} else {
				vfAssert(strings.Contains(tok.Code, "callProvider("+goFn+", "+args+")"), "call: provider called with the arguments verbatim")
			}
			vfAssert(strings.Contains(tok.Code, vfQuote("cannot execute "+c)), "call: failure names the token")
		}
		vfAssert(tok.Raw == c, "token keeps the raw chunk")
	}
	vfReach("C03_kind")
}

// VF_C03_gocode: one token -> provider of that token (type preserved);
// several -> concatenateChunks over the tokens in order.
func VF_C03_gocode() {
	n := vfChoice("ntokens", 4)
	var tk Tokens
	for i := 0; i < n; i++ {
		tk = append(tk, Token{Code: vfString("code")})
	}
	code, err := tk.GoCode()
	vfObserve("gocode", code)
	if n == 0 {
		vfAssert(err != nil, "empty token list is an error")
		vfReach("C03_gocode")
		return
	}
	vfAssert(err == nil, "non-empty token list compiles")
	if n == 1 {
		vfAssert(code == "dependencyProvider("+tk[0].Code+")", "single token: provider of the token itself")
		vfAssert(!strings.Contains(code, "concatenateChunks") || strings.Contains(tk[0].Code, "concatenateChunks"), "single token is not concatenated")
	} else {
		parts := make([]string, 0)
		for _, t := range tk {
			parts = append(parts, t.Code)
		}
		vfAssert(strings.Contains(code, "concatenateChunks("+strings.Join(parts, ", ")+")"), "several tokens: concatenated in order")
		vfAssert(strings.HasPrefix(code, "dependencyProvider(func"), "several tokens: wrapped in a provider")
	}
	vfReach("C03_gocode")
}

func vfDoublePercent(t string) string {
	out := ""
	for _, r := range t {
		c := string(r)
		if c == "%" {
			out += "%%"
		} else {
			out += c
		}
	}
	return out
}

// VF_C03_double: a string whose every % is doubled tokenizes without error or
// dependency and its tokens mean the original string.
func VF_C03_double() {
	t := vfString("t")
	vfAssume(vfRuneLen(t) <= vfBound("double.len", 4, 8))
	s := vfDoublePercent(t)
	tz := NewTokenizer(NewChunker(), vfFactory(""))
	tks, err := tz.Tokenize(s)
	vfAssert(err == nil, "doubled % never errors")
	if err == nil {
		meaning := ""
		for _, tk := range tks {
			vfAssert(len(tk.DependsOn) == 0, "doubled %: no dependency")
			vfAssert(tk.Kind == KindString, "doubled %: only string tokens")
			if tk.Raw == "%%" {
				meaning += "%"
				vfAssert(strings.Contains(tk.Code, "return \"%\", nil"), "doubled %: %% token yields %")
			} else {
				meaning += tk.Raw
				vfAssert(strings.Contains(tk.Code, "return "+vfQuote(tk.Raw)+", nil"), "doubled %: literal token yields its text")
			}
		}
		if t == "" {
			vfAssert(len(tks) == 1 && tks[0].Raw == "", "empty string: one empty token")
		}
		vfAssert(meaning == t, "doubled %: tokens mean the original string")
	}
	vfReach("C03_double")
}

// VF_C03_tokenize: Tokenize = Chunks then Create per chunk, errors joined,
// dependencies in chunk order.
func VF_C03_tokenize() {
	s := vfString("s")
	vfAssume(vfRuneLen(s) <= vfBound("tokenize.len", 4, 8))
	tz := NewTokenizer(NewChunker(), vfFactory(""))
	tks, err := tz.Tokenize(s)
	for _, t := range tks {
		vfObserve("token", t.Code)
	}
	if err != nil {
		vfObserve("err", err.Error())
	}
	want, bad := refChunks(s)
	if bad {
		vfAssert(err != nil, "unbalanced % is rejected")
		vfReach("C03_tokenize_bad")
		return
	}
	anyBad := false
	var deps []string
	for _, c := range want {
		k, name, _ := refKind(c, []string{"env", "envInt", "todo"})
		if k == refErrFunc || k == refErrToken {
			anyBad = true
		}
		if k == refReference {
			deps = append(deps, name)
		}
	}
	vfAssert(anyBad == (err != nil), "rejected iff some chunk is an unknown function or malformed token")
	if err == nil {
		vfAssert(len(tks) == len(want), "one token per chunk")
		var got []string
		for _, t := range tks {
			got = append(got, t.DependsOn...)
		}
		vfAssert(vfEqStrings(got, deps), "dependencies are the referenced parameters in order")
	}
	vfReach("C03_tokenize")
}
