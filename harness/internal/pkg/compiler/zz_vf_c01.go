package compiler

import (
	"strings"

	"github.com/gontainer/gontainer/internal/pkg/input"
	"github.com/gontainer/gontainer/internal/pkg/output"
	"github.com/gontainer/gontainer/internal/pkg/template"
	skel "github.com/gontainer/gontainer/internal/zzvfskel"
)

func init() {
	vfRegister("VF_C01_api", VF_C01_api)
	vfRegister("VF_C01_getters", VF_C01_getters)
	vfRegister("VF_C01_own_imports", VF_C01_own_imports)
	vfRegister("VF_C01_param_literals", VF_C01_param_literals)
}

// vfGenerate runs the pipeline of `gontainer build` after YAML decoding:
// validate, compile, validate the output, render (gofmt/goimports are the
// identity stubs of the template package's environment). ok=false: rejected.
func vfGenerate(in input.Input, stub bool) (em skel.Emitted, text string, ok bool) {
	w := vfWire()
	if in.Meta.Functions == nil {
		in.Meta.Functions = map[string]string{}
	}
	for k, v := range vfBuiltins {
		in.Meta.Functions[k] = v
	}
	c := New(NewStepValidateInput(input.NewDefaultValidator("")), w.meta, w.pstep, w.services, w.decs)
	o, err := c.Compile(in)
	if err != nil {
		return em, "", false
	}
	if output.ValidateServicesScopes(o) != nil || output.ValidateCircularDeps(o) != nil || output.ValidateParamsExist(o) != nil || output.ValidateServicesExist(o) != nil {
		return em, "", false
	}
	template.VfFmtEnv = template.VfFmtEnvT{}
	text, err = template.NewBuilder(w.imports, w.imports, template.NewCodeFormatter(), "dev", stub).Build(o)
	if err != nil {
		return em, "", false
	}
	return vfEmitted(text), text, true
}

// vfCheckAPI: every selector the generated constructor uses on the runtime
// exists in the pinned runtime (obligation 3 of DESIGN 3.12).
func vfCheckAPI(em skel.Emitted, allowed string) {
	vfAssert(em.ParseErr == "", "the generated text is syntactically valid Go")
	// every identifier the file uses is declared in it, imported, predeclared,
	// or a current-package symbol the configuration names (none in this harness)
	for _, u := range em.Unresolved {
		named := false
		for _, a := range strings.Fields(allowed) {
			named = named || a == u
		}
		if !named {
			vfAssert(u == "", "the generated code uses no identifier it does not declare: "+u)
		}
	}
	for _, b := range em.Blocks {
		for _, c := range b.Calls {
			if c.Recv == "s" {
				vfAssert(vfRuntimeHas("Service", c.Fn), "every method called on a service definition exists in the pinned runtime")
			}
		}
	}
	for _, c := range em.CtorCalls {
		if c.Recv == "c" {
			vfAssert(vfRuntimeHas("Container", c.Fn), "every method called on the container exists in the pinned runtime")
		}
	}
	for _, h := range em.Helpers {
		// name := <alias>.<Func>   or   name := c.<method>
		i := strings.Index(h, " := ")
		rhs := h[i+4:]
		j := strings.LastIndex(rhs, ".")
		if j < 0 {
			continue
		}
		if strings.HasPrefix(rhs, "c.") {
			nm := rhs[2:]
			own := false
			for _, m := range em.Methods {
				own = own || m.Name == nm
			}
			if !own {
				vfAssert(vfRuntimeHas("Container", nm), "every container method bound in the constructor is declared in the file or exists in the pinned runtime")
			}
		} else if !strings.HasPrefix(rhs, "&") {
			vfAssert(vfRuntimeHas("pkg", rhs[j+1:]), "every runtime function bound in the constructor exists in the pinned runtime")
		}
	}
}

// VF_C01_api: creation method x scope keyword x todo x tags/calls/fields:
// the emitted runtime API exists and the text parses, in both modes.
func VF_C01_api() {
	ctor, val, typ := "pkg.NewX", "pkg.X{}", "*pkg.X"
	var svc input.Service
	switch vfChoice("creation", 4) {
	case 0:
		svc.Constructor = &ctor
		svc.Args = []any{5, "@dep", "%p%", "$gontainer", "!value pkg.V", "!tagged other"}
	case 1:
		svc.Value = &val
	case 2:
		svc.Type = &typ
	case 3:
		pval := "&" + val
		svc.Value, svc.Type = &pval, &typ
	}
	if sc := vfChoice("scope", 4); sc > 0 {
		s := input.Scope(sc)
		svc.Scope = &s
	}
	if vfBool("extras") {
		svc.Calls = []input.Call{{Method: "SetA", Args: []any{1}}, {Method: "WithB", Immutable: true}}
		svc.Fields = map[string]any{"F": "v"}
		svc.Tags = []input.Tag{{Name: "t", Priority: 3}}
	}
	yes := true
	in := input.Input{
		Params:     map[string]any{"p": "x"},
		Services:   map[string]input.Service{"svc": svc, "dep": {Todo: &yes}},
		Decorators: []input.Decorator{{Tag: "t", Decorator: "pkg.Decorate", Args: []any{"@dep"}}},
	}
	// import forms: "pkg" is either the import path itself or an alias of
	// meta.imports for a longer path (then used several times: value, type,
	// !value argument, decorator); a second service adds a quoted full path
	allowed := ""
	switch vfChoice("imports", 5) {
	case 3:
		// everything in the current package: no import at all
		lc, lv, lt, lp := "NewX", "X{}", "*X", "&X{}"
		ls := in.Services["svc"]
		switch {
		case ls.Constructor != nil:
			ls.Constructor = &lc
			ls.Args = []any{5, "@dep", "%p%", "$gontainer", "!value V", "!tagged other"}
		case ls.Value != nil && ls.Type != nil:
			ls.Value, ls.Type = &lp, &lt
		case ls.Value != nil:
			ls.Value = &lv
		case ls.Type != nil:
			ls.Type = &lt
		}
		in.Services["svc"] = ls
		in.Decorators[0].Decorator = "Decorate"
		allowed = "NewX X V Decorate"
	case 4:
		// a constructor service whose declared type comes from a package used
		// nowhere else, without a getter: that package must not stay imported
		tt := `*"example.com/types/only".T`
		tc := "pkg.NewT"
		in.Services["typed"] = input.Service{Constructor: &tc, Type: &tt, Tags: []input.Tag{{Name: "other"}}}
	case 1:
		in.Meta.Imports = map[string]string{"pkg": "example.com/some/pkg"}
	case 2:
		in.Meta.Imports = map[string]string{"pkg": "example.com/some/pkg"}
		ot := `*"example.com/other/pkg".Y`
		in.Services["other"] = input.Service{Type: &ot, Tags: []input.Tag{{Name: "other"}}}
	}
	em, text, ok := vfGenerate(in, vfBool("stub"))
	vfAssert(ok, "a valid configuration is accepted")
	if ok {
		vfCheckAPI(em, allowed)
		// the whole file against go/types and the pinned runtime (user packages are fixtures)
		for _, e := range vfTypeErrors(text, allowed) {
			vfAssert(e == "", "the generated file type-checks against the pinned runtime: "+e)
		}
	}
	vfReach("C01_api")
}

// VF_C01_getters: for a symbolic getter and type (any accepted ones), the
// generated methods are well-formed identifiers, pairwise distinct, distinct
// from the container's own API, and the error path of a getter compiles for
// value types too.
func VF_C01_getters() {
	g := vfStr("getter", vfBound("c01.getter", 10, 20))
	t := vfStr("type", 3)
	vfAssume(vfInRe(t, `\A\*?[A-Z][a-z]?\z`))
	ctor := "NewX"
	must := vfBool("must")
	in := input.Input{Services: map[string]input.Service{"svc": {Constructor: &ctor, Getter: &g, Type: &t, MustGetter: &must}}}
	em, _, ok := vfGenerate(in, false)
	if !ok {
		vfReach("C01_getters_rejected")
		return
	}
	vfAssert(em.ParseErr == "", "the generated text is syntactically valid Go")
	var names []string
	derived := 0
	for _, m := range em.Methods {
		// every method of the generated type, the template's own helpers included
		names = append(names, m.Name)
		vfAssert(vfInRe(m.Name, `\A[A-Za-z_][A-Za-z0-9_]*\z`), "every generated method name is a Go identifier")
		vfAssert(!vfRuntimeHas("Container", m.Name) || false, "a generated method never shadows a method of the embedded container")
		vfAssert(m.Name != "Container", "a generated method never has the name of the embedded field")
		if m.Name == g || m.Name == g+"InContext" || m.Name == "Must"+g || m.Name == "Must"+g+"InContext" {
			derived++
		} else {
			continue
		}
		// error path: `return nil, ...` is only valid when the result type admits nil
		for _, r := range m.Returns {
			if strings.HasPrefix(r, "nil,") {
				vfAssertKnown(strings.HasPrefix(t, "*") || t == "interface{}", "a getter returns nil for its result only if the declared type admits nil", "D6", !strings.HasPrefix(t, "*"))
			}
		}
	}
	for i := range names {
		for j := i + 1; j < len(names); j++ {
			vfAssert(names[i] != names[j], "generated method names are pairwise distinct (getters and the template's own helpers)")
		}
	}
	want := 2
	if must {
		want = 4
	}
	vfAssert(derived == want, "G and GInContext, plus MustG and MustGInContext exactly when must_getter holds")
	vfReach("C01_getters")
}

// vfOwn maps a member the templates reference to the package it must come from.
var vfOwn = map[string]string{
	"Sprintf": "fmt", "Errorf": "fmt", "Context": "context", "TypeOf": "reflect", "LookupEnv": "os", "Atoi": "strconv",
	"Prefix":       "github.com/gontainer/gontainer-helpers/v3/grouperror",
	"Copy":         "github.com/gontainer/gontainer-helpers/v3/copier",
	"CallProvider": "github.com/gontainer/gontainer-helpers/v3/caller",
	"CastToString": "github.com/gontainer/gontainer-helpers/v3/exporter",
	"NewService":   "github.com/gontainer/gontainer-helpers/v3/container",
}

// VF_C01_own_imports: under every accepted alias table the packages the
// template itself needs still resolve to themselves.
func VF_C01_own_imports() {
	a := vfStr("alias", vfBound("c01.alias", 7, 8))
	p := "my/pkg"
	ctor := "NewX"
	g := "GetX"
	in := input.Input{
		Meta:     input.Meta{Imports: map[string]string{a: p}},
		Services: map[string]input.Service{"svc": {Constructor: &ctor, Getter: &g}},
		Params:   map[string]any{"e": "%env(\"A\")%"},
	}
	em, _, ok := vfGenerate(in, false)
	if !ok {
		vfReach("C01_own_imports_rejected")
		return
	}
	vfAssert(em.ParseErr == "", "the generated text is syntactically valid Go")
	for _, sel := range em.Selectors {
		i := strings.Index(sel, ".")
		qual, member := sel[:i], sel[i+1:]
		wantPath, known := vfOwn[member]
		if !known {
			continue
		}
		for _, im := range em.Imports {
			if im.Alias == qual {
				vfAssertKnown(im.Path == wantPath, "the packages the generated code itself needs are not captured by a user alias", "D3",
					a == "fmt" || a == "context" || a == "reflect" || a == "os" || a == "strconv" || a == "errors" || a == "github.com")
			}
		}
	}
	vfReach("C01_own_imports")
}

// VF_C01_param_literals: every parameter literal kind is emitted as a Go
// literal of that kind.
func VF_C01_param_literals() {
	v := vfAny("v", 0)
	if s, ok := v.(string); ok {
		vfAssume(vfRuneLen(s) <= 3 && !strings.Contains(s, "%"))
	}
	in := input.Input{Params: map[string]any{"p": v}}
	em, _, ok := vfGenerate(in, false)
	vfAssert(ok, "a primitive parameter is accepted")
	if !ok {
		return
	}
	vfAssert(em.ParseErr == "", "the generated text is syntactically valid Go")
	found := false
	for _, c := range em.CtorCalls {
		if c.Fn != "OverrideParam" || len(c.Args) != 2 {
			continue
		}
		found = true
		vfAssert(c.Args[0] == vfQuote("p"), "the parameter is registered under its name")
		if _, isStr := v.(string); !isStr {
			_, isFloat := v.(float64)
			vfAssertKnown(vfInRe(c.Args[1], `\AdependencyValue\((nil|true|false|int\(-?[0-9]+\)|uint64\([0-9]+\)|float64\(-?[0-9]+(\.[0-9]+)?\))\)\z`),
				"a non-string parameter is emitted as a Go literal of its kind", "D8", isFloat)
		}
	}
	vfAssert(found, "the parameter is registered")
	for _, c := range em.Comments {
		vfAssert(!strings.Contains(c, "\n") || strings.HasPrefix(c, "/*"), "a comment line cannot be broken by a configuration value")
	}
	vfReach("C01_param_literals")
}
