package compiler

import (
	"errors"
	"fmt"

	"github.com/gontainer/gontainer/internal/pkg/input"
	"github.com/gontainer/gontainer/internal/pkg/output"
	"github.com/gontainer/gontainer/internal/pkg/resolver"
)

func init() {
	vfRegister("VF_C08_compile_steps", VF_C08_compile_steps)
}

// --- recording mocks of the compile steps' collaborators --------------------

type vfRec struct{ log string }

func (r *vfRec) RegisterPrefixAlias(alias string, import_ string) error {
	r.log += "alias(" + alias + "," + import_ + ");"
	return errors.New("E<" + alias + ">")
}

func (r *vfRec) RegisterFunc(fnAlias string, goImport string, goFn string) {
	r.log += "func(" + fnAlias + "," + goImport + "," + goFn + ");"
}

func (r *vfRec) Alias(p string) string { return "A<" + p + ">" }

func (r *vfRec) ResolveParam(v any) (resolver.ParamExpr, error) {
	s, _ := v.(string)
	r.log += "param(" + s + ");"
	return resolver.ParamExpr{Code: "P<" + s + ">", Raw: v}, errors.New("E<" + s + ">")
}

func (r *vfRec) ResolveArg(v any) (resolver.ArgExpr, error) {
	s, _ := v.(string)
	r.log += "arg(" + s + ");"
	return resolver.ArgExpr{Code: "C<" + s + ">", Raw: v}, errors.New("E<" + s + ">")
}

func vfErrText(err error) string {
	if err == nil {
		return ""
	}
	return err.Error()
}

func vfServiceSummary(o output.Output) string {
	s := ""
	for _, svc := range o.Services {
		s += svc.Name + "["
		for _, f := range svc.Fields {
			s += f.Name + "=" + f.Value.Code + ","
		}
		s += "];"
	}
	for _, p := range o.Params {
		s += fmt.Sprintf("%s=%s;", p.Name, p.Code)
	}
	return s
}

// VF_C08_compile_steps: every compile step that walks a mapping (imports,
// functions, parameters, services, fields) produces the same output, the same
// diagnostics and the same side effects in the same order whatever the
// iteration order of the mappings.
func VF_C08_compile_steps() {
	a, b := vfString("k"), vfString("k")
	vfAssume(vfRuneLen(a) <= 3 && vfRuneLen(b) <= 3 && a != b)
	which := vfChoice("step", 3)
	run := func() (string, string, string) {
		rec := &vfRec{}
		var o output.Output
		var err error
		switch which {
		case 0:
			in := input.Input{Meta: input.Meta{
				Imports:   map[string]string{a: "p/" + a, b: "p/" + b},
				Functions: map[string]string{a: "pkg.F", b: "G"},
			}}
			err = NewStepCompileMeta(rec, rec).Process(in, &o)
		case 1:
			in := input.Input{Params: map[string]any{a: "v" + a, b: "v" + b}}
			err = NewStepCompileParams(rec).Process(in, &o)
		case 2:
			c := "New"
			svc := input.Service{Constructor: &c, Fields: map[string]any{a: "f" + a, b: "f" + b}}
			in := input.Input{Services: map[string]input.Service{a: svc, b: svc}}
			err = NewStepCompileServices(rec, rec).Process(in, &o)
		}
		return vfServiceSummary(o), vfErrText(err), rec.log
	}
	o1, e1, l1 := run()
	o2, e2, l2 := run()
	vfAssert(o1 == o2, "compiled output is independent of map iteration order")
	vfAssert(e1 == e2, "compile diagnostics are independent of map iteration order")
	vfAssert(l1 == l2, "alias/function registration order is independent of map iteration order")
	vfReach("C08_compile_steps")
}
