package compiler

import (
	"strings"

	"github.com/gontainer/gontainer-helpers/v3/grouperror"
	"github.com/gontainer/gontainer/internal/pkg/input"
	"github.com/gontainer/gontainer/internal/pkg/output"
)

func init() {
	vfRegister("VF_C06_pipeline", VF_C06_pipeline)
	vfRegister("VF_C07_pipeline", VF_C07_pipeline)
	vfRegister("VF_C06_registered", VF_C06_registered)
	vfRegister("VF_C13_todo_no_methods", VF_C13_todo_no_methods)
	vfRegister("VF_C07_pipeline_decorators", VF_C07_pipeline_decorators)
}

// VF_C13_todo_no_methods: a todo service is exempt from the getter rules
// because it adds no methods: whatever getter / must_getter / type it
// declares, the compiled service carries none of them.
func VF_C13_todo_no_methods() {
	g := vfStr("getter", 3)
	t := vfStr("type", 3)
	must := vfBool("must")
	yes := true
	ctor := "NewX"
	gx := "GetX"
	in := input.Input{Services: map[string]input.Service{
		"later": {Todo: &yes, Getter: &g, MustGetter: &must, Type: &t},
		"real":  {Constructor: &ctor, Getter: &gx},
	}}
	w := vfWire()
	c := New(NewStepValidateInput(input.NewDefaultValidator("")), w.meta, w.pstep, w.services, w.decs)
	o, err := c.Compile(in)
	vfAssert(err == nil && len(o.Services) == 2, "a todo service is accepted whatever its attributes")
	if err != nil || len(o.Services) != 2 {
		return
	}
	for _, s := range o.Services {
		if s.Name == "later" {
			vfAssert(s.Todo && s.Getter == "" && !s.MustGetter, "a todo service adds no getter methods")
		}
	}
	vfReach("C13_todo_no_methods")
}

// VF_C07_pipeline_decorators: from the YAML level: service a carries tag t,
// b needs @a, and two decorators are attached to t - with the same or with
// different functions - of which the second needs @b: every decorator of a tag
// contributes its dependencies, so the configuration is cyclic and rejected.
func VF_C07_pipeline_decorators() {
	ctor := "New"
	fn2 := []string{"Decorate", "Other"}[vfChoice("fn2", 2)]
	first := []any{"@logger"}
	if vfBool("firstEmpty") {
		first = nil
	}
	in := input.Input{
		Services: map[string]input.Service{
			"a":      {Constructor: &ctor, Tags: []input.Tag{{Name: "t"}}},
			"b":      {Constructor: &ctor, Args: []any{"@a"}},
			"logger": {Constructor: &ctor},
		},
		Decorators: []input.Decorator{{Tag: "t", Decorator: "Decorate", Args: first}, {Tag: "t", Decorator: fn2, Args: []any{"@b"}}},
	}
	w := vfWire()
	c := New(NewStepValidateInput(input.NewDefaultValidator("")), w.meta, w.pstep, w.services, w.decs)
	o, err := c.Compile(in)
	vfAssert(err == nil, "the configuration compiles (cycles are checked afterwards)")
	if err != nil {
		return
	}
	vfAssert(len(o.Decorators) == 2, "every declared decorator is compiled")
	cerr := output.ValidateCircularDeps(o)
	vfAssert(cerr != nil, "a cycle through the second decorator of a tag is detected")
	if cerr != nil {
		vfAssert(strings.Contains(cerr.Error(), "@a") && strings.Contains(cerr.Error(), "@b"), "the report shows the cycle through both services")
	}
	vfReach("C07_pipeline_decorators")
}

// VF_C06_registered: what the validators take for declared is declared at run
// time: every parameter of an accepted configuration - whatever its value,
// the falsy ones included - is registered in the generated constructor under
// its name, exactly once, so that no reference to it can fail with "does not
// exist".
func VF_C06_registered() {
	v := vfAny("v", 0)
	if s, ok := v.(string); ok {
		vfAssume(vfRuneLen(s) <= 3 && !strings.Contains(s, "%"))
	}
	ctor := "NewX"
	in := input.Input{Params: map[string]any{"p": v, "q": "lit"}, Services: map[string]input.Service{"svc": {Constructor: &ctor, Args: []any{"%p%", "%q%"}}}}
	em, _, ok := vfGenerate(in, false)
	vfAssert(ok, "a configuration whose references are all declared is accepted")
	if !ok {
		return
	}
	np, nq, ns := 0, 0, 0
	for _, c := range em.CtorCalls {
		if c.Fn == "OverrideParam" && len(c.Args) == 2 {
			if c.Args[0] == vfQuote("p") {
				np++
			}
			if c.Args[0] == vfQuote("q") {
				nq++
			}
		}
	}
	for _, b := range em.Blocks {
		if b.Name == vfQuote("svc") {
			ns++
		}
	}
	vfAssert(np == 1 && nq == 1, "every declared parameter is registered exactly once, whatever its value")
	vfAssert(ns == 1, "every declared service is registered exactly once")
	vfReach("C06_registered")
}

// vfRefForm: "%x%" alone, after literal text, after %%, before literal text.
func vfRefForm(tag, x string) string {
	switch vfChoice(tag, 4) {
	case 1:
		return "http://%" + x + "%"
	case 2:
		return "%%%" + x + "%"
	case 3:
		return "%" + x + "%/suffix"
	}
	return "%" + x + "%"
}

// VF_C07_pipeline: from YAML-level parameters to the cycle verdict: parameter
// a refers to b and b may refer back to a, each reference in any pattern
// form: the configuration is rejected for a cycle iff both references exist,
// and the report shows the cycle through both parameters.
func VF_C07_pipeline() {
	back := vfBool("back")
	params := map[string]any{"a": vfRefForm("fa", "b"), "b": "lit"}
	if back {
		params["b"] = vfRefForm("fb", "a")
	}
	self := vfBool("self")
	if self {
		params["c"] = vfRefForm("fc", "c")
	}
	w := vfWire()
	in := input.Input{Params: params}
	c := New(NewStepValidateInput(input.NewDefaultValidator("")), w.meta, w.pstep, w.services, w.decs)
	o, err := c.Compile(in)
	vfAssert(err == nil, "the configuration compiles (cycles are checked afterwards)")
	if err != nil {
		return
	}
	cerr := output.ValidateCircularDeps(o)
	vfAssert((cerr != nil) == (back || self), "rejected for circular dependencies iff the parameters refer to each other (or to themselves), whatever the pattern form")
	if cerr != nil {
		if back {
			vfAssert(strings.Contains(cerr.Error(), "%a%") && strings.Contains(cerr.Error(), "%b%"), "the report shows the cycle through both parameters")
		}
		if self {
			vfAssert(strings.Contains(cerr.Error(), "%c%"), "the report shows the self-reference")
		}
	}
	vfReach("C07_pipeline")
}

// VF_C06_pipeline: from the YAML-level configuration to the verdict: a
// reference written in any position and any pattern form (alone, inside a
// multi-chunk pattern, after %%, twice in one pattern) is compiled into a
// dependency of its referrer and the validators report it iff the name is not
// declared (todo declarations count).
func VF_C06_pipeline() {
	x := vfStr("ref", vfBound("c06.ref", 2, 3))
	vfAssume(vfInRe(x, `\A`+docName+`\z`))
	isParam := vfBool("paramRef")
	var ref string
	nrefs := 1
	if isParam {
		switch vfChoice("form", 4) {
		case 0:
			ref = "%" + x + "%"
		case 1:
			ref = "a%" + x + "%b"
		case 2:
			ref = "%%%" + x + "%"
		case 3:
			ref = "%" + x + "%-%" + x + "%"
			nrefs = 2
		}
	} else {
		ref = "@" + x
	}
	ctor := "NewX"
	yes := true
	in := input.Input{
		Params:   map[string]any{"p0": 1, "p1": "%todo()%"},
		Services: map[string]input.Service{"s0": {Constructor: &ctor, Tags: []input.Tag{{Name: "t"}}}, "s1": {Todo: &yes}},
	}
	referrerP, referrerS := vfQuote("@s0"), vfQuote("s0")
	svc := in.Services["s0"]
	pos := vfChoice("pos", 5)
	switch pos {
	case 0:
		if !isParam {
			// a parameter cannot refer to a service: "@x" is a plain string there
			vfReach("C06_pipeline_na")
			return
		}
		in.Params["q"] = ref
		referrerP = vfQuote("%q%")
	case 1:
		svc.Args = []any{5, ref}
	case 2:
		svc.Calls = []input.Call{{Method: "M", Args: []any{ref}}}
	case 3:
		svc.Fields = map[string]any{"F": ref}
	case 4:
		in.Decorators = []input.Decorator{{Tag: "t", Decorator: "D", Args: []any{ref}}}
		referrerP = "decorator(#0, " + vfQuote("t") + ")"
		referrerS = referrerP
	}
	in.Services["s0"] = svc
	w := vfWire()
	for k, v := range vfBuiltins {
		if in.Meta.Functions == nil {
			in.Meta.Functions = map[string]string{}
		}
		in.Meta.Functions[k] = v
	}
	c := New(NewStepValidateInput(input.NewDefaultValidator("")), w.meta, w.pstep, w.services, w.decs)
	o, err := c.Compile(in)
	vfAssert(err == nil, "the configuration compiles (references are checked afterwards)")
	if err != nil {
		return
	}
	perr, serr := output.ValidateParamsExist(o), output.ValidateServicesExist(o)
	if isParam {
		declared := vfOr(vfOr(x == "p0", x == "p1"), vfAnd(pos == 0, x == "q"))
		vfAssert((perr != nil) == !declared, "a %param% reference is reported iff the parameter is not declared")
		vfAssert(serr == nil, "a parameter reference is not a service reference")
		if perr != nil {
			vfAssert(len(grouperror.Collection(perr)) == nrefs, "one diagnostic per dangling reference")
			vfAssert(strings.Contains(perr.Error(), "param "+vfQuote(x)+" does not exist"), "the diagnostic names the missing parameter")
			vfAssert(strings.Contains(perr.Error(), referrerP), "the diagnostic names the referrer")
		}
	} else {
		declared := vfOr(x == "s0", x == "s1")
		vfAssert((serr != nil) == !declared, "an @service reference is reported iff the service is not declared")
		vfAssert(perr == nil, "a service reference is not a parameter reference")
		if serr != nil {
			vfAssert(len(grouperror.Collection(serr)) == 1, "one diagnostic per dangling reference")
			vfAssert(strings.Contains(serr.Error(), "service "+vfQuote(x)+" does not exist"), "the diagnostic names the missing service")
			vfAssert(strings.Contains(serr.Error(), referrerS), "the diagnostic names the referrer")
		}
	}
	vfReach("C06_pipeline")
}
