package compiler

import (
	"strings"

	"github.com/gontainer/gontainer-helpers/v3/grouperror"
	"github.com/gontainer/gontainer/internal/pkg/input"
	"github.com/gontainer/gontainer/internal/pkg/output"
)

func init() { vfRegister("VF_C06_pipeline", VF_C06_pipeline) }

// VF_C06_pipeline: from the YAML-level configuration to the verdict: a
// reference written in any position and any pattern form (alone, inside a
// multi-chunk pattern, after %%, twice in one pattern) is compiled into a
// dependency of its referrer and the validators report it iff the name is not
// declared (todo declarations count).
func VF_C06_pipeline() {
	x := vfStr("ref", vfBound("c06.ref", 2, 3))
	vfAssume(vfInRe(x, `\A`+docName+`\z`))
	isParam := vfBool("paramRef")
	var ref string
	nrefs := 1
	if isParam {
		switch vfChoice("form", 4) {
		case 0:
			ref = "%" + x + "%"
		case 1:
			ref = "a%" + x + "%b"
		case 2:
			ref = "%%%" + x + "%"
		case 3:
			ref = "%" + x + "%-%" + x + "%"
			nrefs = 2
		}
	} else {
		ref = "@" + x
	}
	ctor := "NewX"
	yes := true
	in := input.Input{
		Params:   map[string]any{"p0": 1, "p1": "%todo()%"},
		Services: map[string]input.Service{"s0": {Constructor: &ctor, Tags: []input.Tag{{Name: "t"}}}, "s1": {Todo: &yes}},
	}
	referrerP, referrerS := vfQuote("@s0"), vfQuote("s0")
	svc := in.Services["s0"]
	pos := vfChoice("pos", 5)
	switch pos {
	case 0:
		if !isParam {
			// a parameter cannot refer to a service: "@x" is a plain string there
			vfReach("C06_pipeline_na")
			return
		}
		in.Params["q"] = ref
		referrerP = vfQuote("%q%")
	case 1:
		svc.Args = []any{5, ref}
	case 2:
		svc.Calls = []input.Call{{Method: "M", Args: []any{ref}}}
	case 3:
		svc.Fields = map[string]any{"F": ref}
	case 4:
		in.Decorators = []input.Decorator{{Tag: "t", Decorator: "D", Args: []any{ref}}}
		referrerP = "decorator(#0, " + vfQuote("t") + ")"
		referrerS = referrerP
	}
	in.Services["s0"] = svc
	w := vfWire()
	for k, v := range vfBuiltins {
		if in.Meta.Functions == nil {
			in.Meta.Functions = map[string]string{}
		}
		in.Meta.Functions[k] = v
	}
	c := New(NewStepValidateInput(input.NewDefaultValidator("")), w.meta, w.pstep, w.services, w.decs)
	o, err := c.Compile(in)
	vfAssert(err == nil, "the configuration compiles (references are checked afterwards)")
	if err != nil {
		return
	}
	perr, serr := output.ValidateParamsExist(o), output.ValidateServicesExist(o)
	if isParam {
		declared := vfOr(vfOr(x == "p0", x == "p1"), vfAnd(pos == 0, x == "q"))
		vfAssert((perr != nil) == !declared, "a %param% reference is reported iff the parameter is not declared")
		vfAssert(serr == nil, "a parameter reference is not a service reference")
		if perr != nil {
			vfAssert(len(grouperror.Collection(perr)) == nrefs, "one diagnostic per dangling reference")
			vfAssert(strings.Contains(perr.Error(), "param "+vfQuote(x)+" does not exist"), "the diagnostic names the missing parameter")
			vfAssert(strings.Contains(perr.Error(), referrerP), "the diagnostic names the referrer")
		}
	} else {
		declared := vfOr(x == "s0", x == "s1")
		vfAssert((serr != nil) == !declared, "an @service reference is reported iff the service is not declared")
		vfAssert(perr == nil, "a service reference is not a parameter reference")
		if serr != nil {
			vfAssert(len(grouperror.Collection(serr)) == 1, "one diagnostic per dangling reference")
			vfAssert(strings.Contains(serr.Error(), "service "+vfQuote(x)+" does not exist"), "the diagnostic names the missing service")
			vfAssert(strings.Contains(serr.Error(), referrerS), "the diagnostic names the referrer")
		}
	}
	vfReach("C06_pipeline")
}
