package compiler

import (
	"strconv"
	"strings"

	"github.com/gontainer/gontainer/internal/pkg/input"
	"github.com/gontainer/gontainer/internal/pkg/output"
	"github.com/gontainer/gontainer/internal/pkg/template"
	skel "github.com/gontainer/gontainer/internal/zzvfskel"
)

func init() {
	vfRegister("VF_C17_parity", VF_C17_parity)
	vfRegister("VF_C13_template", VF_C13_template)
	vfRegister("VF_C02_template", VF_C02_template)
	vfRegister("VF_C04_template", VF_C04_template)
	vfRegister("VF_C05_template", VF_C05_template)
	vfRegister("VF_C15_template", VF_C15_template)
}

// vfGenerateO is vfGenerate that also returns the compiled output.
func vfGenerateO(in input.Input, stub bool) (o output.Output, em skel.Emitted, text string, ok bool) {
	w := vfWire()
	if in.Meta.Functions == nil {
		in.Meta.Functions = map[string]string{}
	}
	for k, v := range vfBuiltins {
		in.Meta.Functions[k] = v
	}
	c := New(NewStepValidateInput(input.NewDefaultValidator("")), w.meta, w.pstep, w.services, w.decs)
	o, err := c.Compile(in)
	if err != nil {
		return o, em, "", false
	}
	if output.ValidateServicesScopes(o) != nil || output.ValidateCircularDeps(o) != nil || output.ValidateParamsExist(o) != nil || output.ValidateServicesExist(o) != nil {
		return o, em, "", false
	}
	template.VfFmtEnv = template.VfFmtEnvT{}
	text, err = template.NewBuilder(w.imports, w.imports, template.NewCodeFormatter(), "dev", stub).Build(o)
	if err != nil {
		return o, em, "", false
	}
	return o, vfEmitted(text), text, true
}

func vfPublic(ms []skel.Method) []skel.Method {
	var out []skel.Method
	for _, m := range ms {
		if !strings.HasPrefix(m.Name, "_") {
			out = append(out, m)
		}
	}
	return out
}

// VF_C17_parity: the stub output carries the build constraint, declares the
// same package, type, constructor and getters with identical signatures,
// every body panics, and nothing but types of the user's packages is
// referenced.
func VF_C17_parity() {
	g := vfStr("getter", vfBound("tpl.getter", 6, 14))
	t := vfStr("type", 3)
	vfAssume(vfInRe(t, `\A\*?[A-Z][a-z]?\z`))
	ctor, val, deco := "upkg.CtorMarker", "upkg.ValueMarker{}", "upkg.DecoMarker"
	gu := "Untyped"
	vfAssume(g != gu && g != gu+"InContext" && g != "Must"+gu && g != "Must"+gu+"InContext" && gu != g+"InContext")
	in := input.Input{
		Meta: input.Meta{Functions: map[string]string{"fn": "upkg.FnMarker"}},
		Services: map[string]input.Service{
			"a": {Constructor: &ctor, Getter: &g, Type: &t, MustGetter: vfTri("must"), Tags: []input.Tag{{Name: "t"}}},
			"b": {Value: &val},
			// a getter without a declared type (interface{})
			"c": {Constructor: &ctor, Getter: &gu},
		},
		Params:     map[string]any{"p": "%fn()%"},
		Decorators: []input.Decorator{{Tag: "t", Decorator: deco}},
	}
	if vfBool("meta") {
		pkg, ct, cc := "mypkg", "MyContainer", "NewMy"
		in.Meta.Pkg, in.Meta.ContainerType, in.Meta.ContainerConstructor = &pkg, &ct, &cc
	}
	normal, ntext, ok1 := vfGenerate(in, false)
	stub, stext, ok2 := vfGenerate(in, true)
	vfAssert(ok1 == ok2, "the accept/reject decision is the same in both modes")
	if !ok1 || !ok2 {
		vfReach("C17_parity_rejected")
		return
	}
	vfAssert(normal.ParseErr == "" && stub.ParseErr == "", "both outputs are syntactically valid Go")
	vfAssert(len(stub.BuildTags) == 1 && stub.BuildTags[0] == "gontainerstub", "the stub carries the gontainerstub build constraint")
	vfAssert(len(normal.BuildTags) == 0, "the normal output carries no build constraint")
	vfAssert(stub.Package == normal.Package && stub.TypeName == normal.TypeName && stub.CtorName == normal.CtorName && stub.Embedded == normal.Embedded, "same package, container type and constructor")
	nm, sm := vfPublic(normal.Methods), vfPublic(stub.Methods)
	vfAssert(len(nm) == len(sm), "the same getter methods are declared")
	if len(nm) == len(sm) {
		for i := range nm {
			vfAssert(nm[i].Name == sm[i].Name && nm[i].Recv == sm[i].Recv && nm[i].Params == sm[i].Params && nm[i].Results == sm[i].Results, "identical method signatures")
			vfAssert(sm[i].Panics, "every stub getter panics")
		}
	}
	vfAssert(len(stub.Iface) == len(normal.Iface), "the same interface is asserted")
	// both files against go/types and the pinned runtime; the user's package and types are fixtures
	for _, e := range vfTypeErrors(ntext, strings.TrimPrefix(t, "*")) {
		vfAssert(e == "", "the normal output type-checks: "+e)
	}
	for _, e := range vfTypeErrors(stext, strings.TrimPrefix(t, "*")) {
		vfAssert(e == "", "the stub type-checks: "+e)
	}
	for _, f := range stub.Funcs {
		if f.Name == stub.CtorName {
			vfAssert(f.Panics, "the stub constructor panics")
		}
	}
	// qualified, so that a getter that happens to be called CtorMarker is not mistaken for the symbol
	for _, marker := range []string{"upkg.CtorMarker", "upkg.ValueMarker", "upkg.DecoMarker", "upkg.FnMarker"} {
		vfAssert(strings.Contains(ntext, marker), "the normal output references the user's symbols")
		vfAssert(!strings.Contains(stext, marker), "the stub references no value, constructor, decorator or function of the user's packages")
	}
	vfReach("C17_parity")
}

// VF_C13_template: the getter methods of a service with getter G and type T.
func VF_C13_template() {
	g := vfStr("getter", vfBound("tpl.getter", 6, 14))
	t := vfStr("type", 3)
	vfAssume(vfInRe(t, `\A\*?[A-Z][a-z]?\z`))
	hasType := vfBool("hasType")
	ctor := "NewX"
	sa := input.Service{Constructor: &ctor, Getter: &g, MustGetter: vfTri("must")}
	if hasType {
		sa.Type = &t
	}
	in := input.Input{Meta: input.Meta{DefaultMustGetter: vfTri("default")},
		Services: map[string]input.Service{"a": sa, "b": {Constructor: &ctor}}}
	o, em, text, ok := vfGenerateO(in, false)
	if !ok {
		vfReach("C13_template_rejected")
		return
	}
	for _, e := range vfTypeErrors(text, "NewX "+strings.TrimPrefix(t, "*")) {
		vfAssert(e == "", "the generated file type-checks: "+e)
	}
	T := "interface{}"
	if hasType {
		T = t
	}
	must := false
	for _, s := range o.Services {
		if s.Name == "a" {
			must = s.MustGetter
		}
	}
	ms := vfPublic(em.Methods)
	want := 2
	if must {
		want = 4
	}
	vfAssert(len(ms) == want, "G, GInContext (+ MustG, MustGInContext iff must-getter); the service without getter adds none")
	vfAssert(em.Package == "main" && em.TypeName == "Gontainer" && em.CtorName == "NewGontainer", "documented default names")
	ctx := ""
	for _, m := range ms {
		vfAssert(m.Recv == "*Gontainer", "methods are declared on the container type")
		switch m.Name {
		case g:
			vfAssert(m.Params == "" && m.Results == T+", error", "G() (T, error)")
			vfAssert(strings.Contains(m.Body, "c.Get("+vfQuote("a")+")"), "G obtains its own service")
		case g + "InContext":
			vfAssert(strings.HasSuffix(m.Params, ".Context") && m.Results == T+", error", "GInContext(ctx) (T, error)")
			vfAssert(strings.Contains(m.Body, "c.GetInContext(ctx, "+vfQuote("a")+")"), "GInContext obtains its own service")
			ctx = m.Params
		case "Must" + g:
			vfAssert(must && m.Params == "" && m.Results == T, "MustG() T")
			vfAssert(strings.Contains(m.Body, "c."+g+"()") && strings.Contains(m.Body, "panic("), "MustG wraps G and panics on error")
		case "Must" + g + "InContext":
			vfAssert(must && strings.HasSuffix(m.Params, ".Context") && m.Results == T, "MustGInContext(ctx) T")
			vfAssert(strings.Contains(m.Body, "c."+g+"InContext(ctx)") && strings.Contains(m.Body, "panic("), "MustGInContext wraps GInContext and panics on error")
		default:
			vfAssert(false, "no other public method is generated")
		}
	}
	// the interface asserted in init() lists the same getters with the same signatures
	n := 0
	for _, im := range em.Iface {
		if im.Name == g || im.Name == g+"InContext" {
			n++
			vfAssert(im.Results == T+", error", "interface: getter signature")
		}
		if im.Name == "Must"+g || im.Name == "Must"+g+"InContext" {
			n++
			vfAssert(must && im.Results == T, "interface: must-getter signature")
		}
	}
	vfAssert(n == want, "the asserted interface lists exactly the generated getters")
	_ = ctx
	vfReach("C13_template")
}

func vfBlock(em skel.Emitted, quotedName string) (skel.Block, bool) {
	for _, b := range em.Blocks {
		if b.Name == quotedName {
			return b, true
		}
	}
	return skel.Block{}, false
}

// VF_C02_template: the emitted definition of a service is its compiled
// definition: constructor with arguments in order, then fields, then calls
// (withers as withers) in order, then tags, then scope.
func VF_C02_template() {
	m1, m2 := vfStr("m1", 3), vfStr("m2", 3)
	vfAssume(vfInRe(m1, `\A`+docIdent+`\z`) && vfInRe(m2, `\A`+docIdent+`\z`))
	f1 := vfStr("f1", 2)
	vfAssume(vfInRe(f1, `\A`+docIdent+`\z`))
	i1, i2 := vfBool("imm1"), vfBool("imm2")
	ctor, val := "pkg.NewX", "pkg.V"
	var svc input.Service
	kind := vfChoice("creation", 3)
	switch kind {
	case 0:
		svc.Constructor = &ctor
		svc.Args = []any{"@dep", 7, "%p%"}
	case 1:
		svc.Value = &val
	case 2:
		t := "pkg.T"
		svc.Type = &t
	}
	svc.Calls = []input.Call{{Method: m1, Args: []any{"@dep"}, Immutable: i1}, {Method: m2, Args: []any{1, 2}, Immutable: i2}}
	svc.Fields = map[string]any{f1: "@dep", "Zz": 5}
	yes := true
	in := input.Input{Params: map[string]any{"p": 1}, Services: map[string]input.Service{"svc": svc, "dep": {Todo: &yes}}}
	o, em, _, ok := vfGenerateO(in, false)
	vfAssert(ok, "accepted")
	if !ok {
		return
	}
	var s output.Service
	for _, x := range o.Services {
		if x.Name == "svc" {
			s = x
		}
	}
	b, found := vfBlock(em, vfQuote("svc"))
	vfAssert(found, "the service has a definition block")
	if !found {
		return
	}
	calls := b.Calls
	vfAssert(len(calls) == 1+len(s.Fields)+len(s.Calls)+1, "constructor, one SetField per field, one call per call, scope")
	if len(calls) != 1+len(s.Fields)+len(s.Calls)+1 {
		return
	}
	c0 := calls[0]
	vfAssert(c0.Fn == "SetConstructor", "the creation method comes first")
	switch kind {
	case 0:
		vfAssert(len(c0.Args) == 1+len(s.Args) && c0.Args[0] == s.Constructor, "created by the declared constructor")
		if len(c0.Args) == 1+len(s.Args) {
			for i, a := range s.Args {
				vfAssert(c0.Args[1+i] == a.Code, "constructor arguments in declared order")
			}
		}
	case 1:
		vfAssert(len(c0.Args) == 1 && strings.Contains(c0.Args[0], "return "+s.Value), "created from the declared value")
	case 2:
		vfAssert(len(c0.Args) == 1 && strings.Contains(c0.Args[0], "(result "+s.Type+")"), "created as the zero value of the declared type")
	}
	k := 1
	for _, f := range s.Fields {
		c := calls[k]
		k++
		vfAssert(c.Fn == "SetField" && len(c.Args) == 2 && c.Args[0] == vfQuote(f.Name) && c.Args[1] == f.Value.Code, "fields are assigned after creation, each with its own value")
	}
	for _, sc := range s.Calls {
		c := calls[k]
		k++
		if sc.Immutable {
			vfAssert(c.Fn == "AppendWither", "a wither is registered as a wither")
		} else {
			vfAssert(c.Fn == "AppendCall", "a call is registered as a call")
		}
		vfAssert(len(c.Args) == 1+len(sc.Args) && c.Args[0] == vfQuote(sc.Method), "calls in declared order with their method")
		if len(c.Args) == 1+len(sc.Args) {
			for i, a := range sc.Args {
				vfAssert(c.Args[1+i] == a.Code, "call arguments in declared order")
			}
		}
	}
	vfAssert(calls[k].Fn == "SetScopeDefault", "no declared scope: the default scope")
	// the todo dependency: a constructor that only fails
	tb, tfound := vfBlock(em, vfQuote("dep"))
	vfAssert(tfound && len(tb.Calls) == 1 && tb.Calls[0].Fn == "SetConstructor", "a todo service has only a constructor")
	if tfound && len(tb.Calls) == 1 {
		vfAssert(strings.Contains(tb.Calls[0].Args[0], `.New("service todo")`) && strings.Contains(tb.Calls[0].Args[0], "return nil, "), "a todo service's constructor returns the documented error and nothing else")
	}
	vfReach("C02_template")
}

// VF_C04_template: tags with their priorities, decorators in declaration order.
func VF_C04_template() {
	t1, t2 := vfStr("t1", 2), vfStr("t2", 2)
	p1, p2 := vfInt("p1"), vfInt("p2")
	vfAssume(p1 > -1000000 && p1 < 1000000 && p2 > -1000000 && p2 < 1000000)
	ctor := "NewX"
	d1, d2 := "pkg.D1", "D2"
	yes := true
	in := input.Input{
		Services:   map[string]input.Service{"svc": {Constructor: &ctor, Tags: []input.Tag{{Name: t1, Priority: p1}, {Name: t2, Priority: p2}}}, "other": {Todo: &yes}},
		Decorators: []input.Decorator{{Tag: t2, Decorator: d1, Args: []any{"@other", 1}}, {Tag: t1, Decorator: d2}},
	}
	o, em, _, ok := vfGenerateO(in, false)
	if !ok {
		vfReach("C04_template_rejected")
		return
	}
	b, found := vfBlock(em, vfQuote("svc"))
	vfAssert(found, "definition block")
	var tags []skel.Call
	for _, c := range b.Calls {
		if c.Fn == "Tag" {
			tags = append(tags, c)
		}
	}
	vfAssert(len(tags) == 2, "one Tag call per declared tag")
	if len(tags) == 2 {
		vfAssert(tags[0].Args[0] == vfQuote(t1) && tags[0].Args[1] == "int("+strconv.Itoa(p1)+")", "first tag: name and priority unchanged")
		vfAssert(tags[1].Args[0] == vfQuote(t2) && tags[1].Args[1] == "int("+strconv.Itoa(p2)+")", "second tag: name and priority unchanged")
	}
	var decs []skel.Call
	for _, c := range em.CtorCalls {
		if c.Fn == "AddDecorator" {
			decs = append(decs, c)
		}
	}
	vfAssert(len(decs) == 2 && len(o.Decorators) == 2, "one AddDecorator per decorator")
	if len(decs) == 2 && len(o.Decorators) == 2 {
		for i, d := range o.Decorators {
			vfAssert(decs[i].Args[0] == vfQuote(d.Tag) && decs[i].Args[1] == d.Decorator, "decorators in declaration order with tag and function")
			vfAssert(len(decs[i].Args) == 2+len(d.Args), "decorator arguments")
			if len(decs[i].Args) == 2+len(d.Args) {
				for j, a := range d.Args {
					vfAssert(decs[i].Args[2+j] == a.Code, "decorator arguments in declared order")
				}
			}
		}
	}
	vfReach("C04_template")
}

// VF_C05_template: exactly the three scope keywords parse and each reaches
// the matching runtime setter; no keyword: the default scope.
func VF_C05_template() {
	ctor, val, typ := "NewX", "&X{}", "*X"
	var svc input.Service
	creation := vfChoice("creation", 3)
	switch creation {
	case 0:
		svc.Constructor = &ctor
	case 1:
		svc.Value = &val
	case 2:
		svc.Type = &typ
	}
	want := "SetScopeDefault"
	if vfBool("declared") {
		kw := vfStr("keyword", vfBound("c05.kw", 10, 12))
		var sc input.Scope
		err := sc.UnmarshalYAML(func(p interface{}) error {
			*(p.(*string)) = kw
			return nil
		})
		switch kw {
		case "shared":
			want = "SetScopeShared"
		case "contextual":
			want = "SetScopeContextual"
		case "non_shared":
			want = "SetScopeNonShared"
		default:
			vfAssert(err != nil, "only shared, contextual and non_shared are scope keywords")
			vfReach("C05_template_badkeyword")
			return
		}
		vfAssert(err == nil, "the three keywords parse")
		svc.Scope = &sc
	}
	_, em, _, ok := vfGenerateO(input.Input{Services: map[string]input.Service{"svc": svc}}, false)
	vfAssert(ok, "accepted")
	if !ok {
		return
	}
	b, found := vfBlock(em, vfQuote("svc"))
	vfAssert(found, "definition block")
	n := 0
	for _, c := range b.Calls {
		if strings.HasPrefix(c.Fn, "SetScope") || strings.HasPrefix(c.Fn, "Scope") {
			n++
			vfAssert(c.Fn == want, "the declared scope reaches the matching runtime setter")
			vfAssert(vfRuntimeHas("Service", c.Fn), "the setter exists in the pinned runtime")
		}
	}
	vfAssert(n == 1, "exactly one scope is set")
	// whatever the scope, the object is made by a function the runtime calls for
	// every instantiation (a fresh one per injection / Get / context where the
	// scope says so): the value expression is never evaluated once and stored
	nc := 0
	for _, c := range b.Calls {
		if c.Fn == "SetValue" {
			vfAssert(false, "a service is created per instantiation, not once when the container is built")
		}
		if c.Fn == "SetConstructor" {
			nc++
			if creation != 0 && len(c.Args) > 0 {
				vfAssert(strings.HasPrefix(strings.ReplaceAll(c.Args[0], " ", ""), "func()"), "a value or bare type is wrapped in a function evaluated per instantiation")
			}
		}
	}
	vfAssert(nc == 1, "one creation method")
	vfReach("C05_template")
}

// VF_C15_template: the documented errors of todo placeholders, and lazily
// evaluated parameters, in the generated text.
func VF_C15_template() {
	yes := true
	msg := vfStr("msg", 3)
	vfAssume(vfInRe(msg, `\A[a-z ]*\z`))
	in := input.Input{
		Params:   map[string]any{"t": "%todo()%", "u": "%todo(\"" + msg + "\")%", "s": "plain", "n": 5},
		Services: map[string]input.Service{"later": {Todo: &yes}},
	}
	_, em, text, ok := vfGenerateO(in, false)
	vfAssert(ok, "a configuration whose only definitions are todo is accepted")
	if !ok {
		return
	}
	b, found := vfBlock(em, vfQuote("later"))
	vfAssert(found && len(b.Calls) == 1 && b.Calls[0].Fn == "SetConstructor", "todo service: a constructor only")
	if found && len(b.Calls) == 1 {
		vfAssert(strings.Contains(b.Calls[0].Args[0], `.New("service todo")`), "todo service: the documented error")
	}
	for _, c := range em.CtorCalls {
		if c.Fn != "OverrideParam" || len(c.Args) != 2 {
			continue
		}
		switch c.Args[0] {
		case vfQuote("t"):
			vfAssert(strings.HasPrefix(c.Args[1], "dependencyProvider(func") && strings.Contains(c.Args[1], "callProvider(paramTodo)"), "%todo()%: a lazy provider calling paramTodo")
		case vfQuote("u"):
			vfAssert(strings.Contains(c.Args[1], "callProvider(paramTodo, \""+msg+"\")"), "%todo(msg)%: the message is passed on")
		case vfQuote("s"):
			vfAssert(strings.HasPrefix(c.Args[1], "dependencyProvider(func"), "a string parameter is a lazily evaluated provider")
		case vfQuote("n"):
			vfAssert(c.Args[1] == "dependencyValue(int(5))", "a literal parameter is its value")
		}
	}
	hasTodo := false
	for _, m := range em.Methods {
		if m.Name == "_paramTodo" {
			hasTodo = true
			vfAssert(strings.Contains(m.Body, `.New(params[0])`) && strings.Contains(m.Body, `.New("parameter todo")`), "_paramTodo: the given message, or 'parameter todo'")
		}
	}
	vfAssert(hasTodo, "the todo helper is generated")
	_ = text
	vfReach("C15_template")
}
