package compiler

import (
	"github.com/gontainer/gontainer/internal/pkg/input"
	"github.com/gontainer/gontainer/internal/pkg/output"
)

func init() {
	vfRegister("VF_C12_pipeline_service", VF_C12_pipeline_service)
	vfRegister("VF_C12_pipeline_misc", VF_C12_pipeline_misc)
}

// vfAnyB: any YAML value; a string is bounded to n code points.
func vfAnyB(name string, depth, n int) any {
	v := vfAny(name, depth)
	if s, ok := v.(string); ok {
		vfAssume(vfRuneLen(s) <= n)
	}
	return v
}

func vfOptS(name string, n int) *string {
	if !vfBool(name + ".set") {
		return nil
	}
	s := vfStr(name, n)
	return &s
}

// vfRunPipeline: validation, then (only if it passed) the four compile steps,
// then the four output validators — the order the shipped wiring uses. Every
// instruction executed carries the engine's panic / bounds / nil obligations;
// reaching the end on every feasible path is the totality claim.
func vfRunPipeline(in input.Input) {
	w := vfWire()
	in.Meta.Functions = vfBuiltins
	c := New(NewStepValidateInput(input.NewDefaultValidator("")), w.meta, w.pstep, w.services, w.decs)
	o, err := c.Compile(in)
	if err == nil {
		_ = output.ValidateServicesScopes(o)
		_ = output.ValidateCircularDeps(o)
		_ = output.ValidateParamsExist(o)
		_ = output.ValidateServicesExist(o)
		vfTag("accepted")
	}
}

// VF_C12_pipeline_service: one service; one attribute at a time is arbitrary
// (the others are valid, so that compilation is reached whenever the arbitrary
// one is accepted).
func VF_C12_pipeline_service() {
	ln := vfBound("c12.len", 3, 4)
	ctor := "New"
	svc := input.Service{Constructor: &ctor}
	switch vfChoice("attr", 10) {
	case 9:
		// an explicit scope together with a reference (possibly dangling, possibly to itself)
		sc := input.Scope(1 + vfChoice("scope", 3))
		svc.Scope = &sc
		svc.Args = []any{"@" + vfStr("ref", ln)}
		svc.Fields = map[string]any{"F": "!tagged " + vfStr("tag", ln)}
	case 0:
		svc.Getter = vfOptS("getter", ln+2)
		if vfBool("must.set") {
			m := vfBool("must")
			svc.MustGetter = &m
		}
	case 1:
		svc.Type = vfOptS("type", ln)
	case 2:
		svc.Constructor = nil
		svc.Value = vfOptS("value", ln)
	case 3:
		svc.Constructor = vfOptS("ctor", ln)
	case 4:
		svc.Args = []any{vfAnyB("arg", 1, ln)}
	case 5:
		svc.Calls = []input.Call{{Method: vfStr("method", ln), Args: []any{vfAnyB("carg", 0, ln)}, Immutable: vfBool("imm")}}
	case 6:
		svc.Fields = map[string]any{vfStr("field", ln): vfAnyB("fval", 0, ln)}
	case 7:
		svc.Tags = []input.Tag{{Name: vfStr("tag", ln), Priority: vfInt("prio")}}
	case 8:
		t := vfBool("todo")
		svc.Todo = &t
		svc.Constructor = vfOptS("ctor", ln)
		svc.Args = []any{vfAnyB("arg", 0, ln)}
	}
	vfRunPipeline(input.Input{Services: map[string]input.Service{vfStr("name", ln): svc}})
	vfReach("C12_pipeline_service")
}

// VF_C12_pipeline_misc: arbitrary parameter, decorator, meta.
func VF_C12_pipeline_misc() {
	ln := vfBound("c12.len", 3, 4)
	var in input.Input
	switch vfChoice("part", 3) {
	case 0:
		in.Params = map[string]any{vfStr("pname", ln): vfAnyB("pval", 1, ln)}
	case 1:
		in.Decorators = []input.Decorator{{Tag: vfStr("dtag", ln), Decorator: vfStr("dfn", ln), Args: []any{vfAnyB("darg", 0, ln)}}}
	case 2:
		in.Meta = input.Meta{Pkg: vfOptS("pkg", ln), ContainerType: vfOptS("ct", ln), ContainerConstructor: vfOptS("cc", ln),
			Imports: map[string]string{vfStr("alias", ln): vfStr("path", ln)}}
		in.Meta.Functions = nil
	}
	vfRunPipeline(in)
	vfReach("C12_pipeline_misc")
}
