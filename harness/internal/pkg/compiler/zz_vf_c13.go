package compiler

import (
	"github.com/gontainer/gontainer/internal/pkg/input"
	"github.com/gontainer/gontainer/internal/pkg/output"
)

func init() {
	vfRegister("VF_C13_getter_table", VF_C13_getter_table)
	vfRegister("VF_C13_meta_names", VF_C13_meta_names)
	vfRegister("VF_C13_service_api", VF_C13_service_api)
}

func vfTri(name string) *bool {
	switch vfChoice(name, 3) {
	case 0:
		return nil
	case 1:
		t := true
		return &t
	}
	f := false
	return &f
}

// VF_C13_getter_table: DESIGN A.7 — which methods a service gets.
func VF_C13_getter_table() {
	var svc input.Service
	switch vfChoice("getter.kind", 3) {
	case 1:
		e := ""
		svc.Getter = &e
	case 2:
		g := vfString("getter")
		vfAssume(g != "" && vfRuneLen(g) <= 8)
		svc.Getter = &g
	}
	svc.MustGetter = vfTri("must")
	meta := input.Meta{DefaultMustGetter: vfTri("default")}

	g, mg, err := StepCompileServices{}.getter(svc, meta)

	wantG := ""
	if svc.Getter != nil {
		wantG = *svc.Getter
	}
	wantM := false
	if svc.MustGetter != nil {
		wantM = *svc.MustGetter
	} else if meta.DefaultMustGetter != nil {
		wantM = *meta.DefaultMustGetter
	}
	vfAssert(g == wantG, "the getter is the configured one, or none")
	if wantG == "" && svc.MustGetter != nil && *svc.MustGetter {
		vfAssert(err != nil, "an explicit must_getter without a getter is rejected")
	} else {
		vfAssert(err == nil, "no other getter configuration is rejected")
		if wantG == "" {
			vfAssert(!mg || svc.MustGetter != nil, "no getter: a default must-getter adds no methods")
		} else {
			vfAssert(mg == wantM, "must-getters exactly when must_getter is true, or default_must_getter is true and must_getter is unset")
		}
	}
	vfReach("C13_getter_table")
}

// VF_C13_meta_names: package, type and constructor are the configured ones or
// main / Gontainer / NewGontainer.
func VF_C13_meta_names() {
	w := vfWire()
	var in input.Input
	pkg, typ, ctor := vfString("pkg"), vfString("type"), vfString("ctor")
	hasP, hasT, hasC := vfBool("hasPkg"), vfBool("hasType"), vfBool("hasCtor")
	if hasP {
		in.Meta.Pkg = &pkg
	}
	if hasT {
		in.Meta.ContainerType = &typ
	}
	if hasC {
		in.Meta.ContainerConstructor = &ctor
	}
	var o output.Output
	vfAssert(w.meta.Process(in, &o) == nil, "meta compiles")
	vfAssert(o.Meta.Pkg == pkg || (!hasP && o.Meta.Pkg == "main"), "package name: configured or main")
	vfAssert(o.Meta.ContainerType == typ || (!hasT && o.Meta.ContainerType == "Gontainer"), "container type: configured or Gontainer")
	vfAssert(o.Meta.ContainerConstructor == ctor || (!hasC && o.Meta.ContainerConstructor == "NewGontainer"), "constructor: configured or NewGontainer")
	if hasP {
		vfAssert(o.Meta.Pkg == pkg, "configured package name is used")
	}
	if hasT {
		vfAssert(o.Meta.ContainerType == typ, "configured container type is used")
	}
	if hasC {
		vfAssert(o.Meta.ContainerConstructor == ctor, "configured constructor name is used")
	}
	vfReach("C13_meta_names")
}

// VF_C13_service_api: through the compile step, each service carries its own
// getter, must flag and type into the output (services sorted by name).
func VF_C13_service_api() {
	w := vfWire()
	n0, n1 := vfString("n0"), vfString("n1")
	vfAssume(vfRuneLen(n0) <= 2 && vfRuneLen(n1) <= 2 && n0 < n1)
	g0 := vfString("g0")
	vfAssume(g0 != "" && vfRuneLen(g0) <= 4)
	c := "New"
	tt := true
	typ := vfString("typ")
	vfAssume(vfInRe(typ, `\A\*?[A-Z][a-z]?\z`))
	in := input.Input{Services: map[string]input.Service{
		n0: {Constructor: &c, Getter: &g0, MustGetter: vfTri("must0"), Type: &typ},
		n1: {Constructor: &c},
	}, Meta: input.Meta{DefaultMustGetter: &tt}}
	var o output.Output
	err := w.services.Process(in, &o)
	vfAssert(err == nil, "services compile")
	vfAssert(len(o.Services) == 2 && o.Services[0].Name == n0 && o.Services[1].Name == n1, "services are emitted in name order")
	if len(o.Services) == 2 {
		s0, s1 := o.Services[0], o.Services[1]
		vfAssert(s0.Getter == g0 && s1.Getter == "", "each service keeps its own getter")
		m0 := in.Services[n0].MustGetter
		vfAssert(s0.MustGetter == (m0 == nil || *m0), "must flag: explicit value, else the default")
		vfAssert(!s1.MustGetter, "a service without getter gets no must-getter from the default")
		vfAssert(s0.Type == typ && s1.Type == "interface{}", "result type: the declared type, or interface{}")
	}
	vfReach("C13_service_api")
}
