package compiler

import (
	"strings"

	"github.com/gontainer/gontainer-helpers/v3/exporter"
	"github.com/gontainer/gontainer/internal/pkg/input"
	"github.com/gontainer/gontainer/internal/pkg/output"
)

func init() {
	vfRegister("VF_C02_arg_literal", VF_C02_arg_literal)
	vfRegister("VF_C02_arg_string", VF_C02_arg_string)
	vfRegister("VF_C02_service", VF_C02_service)
	vfRegister("VF_C02_creation", VF_C02_creation)
	vfRegister("VF_C04_tags_decorators", VF_C04_tags_decorators)
	vfRegister("VF_C15_todo", VF_C15_todo)
	vfRegister("VF_C15_params_lazy", VF_C15_params_lazy)
	vfRegister("VF_C14_positions", VF_C14_positions)
}

const (
	docName  = `[A-Za-z]([._-]?[A-Za-z0-9])*`
	docIdent = `[A-Za-z][A-Za-z0-9_]*`
)

func vfStr(name string, n int) string {
	s := vfString(name)
	vfAssume(vfRuneLen(s) <= n)
	return s
}

func vfIsPrim(v any) bool {
	switch v.(type) {
	case nil, string, bool, int, uint64, float64:
		return true
	}
	return false
}

// VF_C02_arg_literal: non-string literals keep their YAML value and type.
func VF_C02_arg_literal() {
	w := vfWire()
	a := vfAny("a", 1)
	if _, isStr := a.(string); isStr {
		vfReach("C02_arg_literal_string")
		return
	}
	e, err := w.args.ResolveArg(a)
	if !vfIsPrim(a) {
		vfAssert(err != nil, "a collection is not an argument")
		vfReach("C02_arg_literal_unsupported")
		return
	}
	vfAssert(err == nil, "a non-string literal is accepted")
	vfAssert(e.Code == "dependencyValue("+exporter.MustExport(a)+")", "a non-string literal is injected as a value of its own type")
	vfAssert(len(e.DependsOnParams) == 0 && len(e.DependsOnServices) == 0 && len(e.DependsOnTags) == 0, "a literal has no dependency")
	vfObserve("code", e.Code)
	vfReach("C02_arg_literal")
}

// VF_C02_arg_string: the first-match chain for strings (DESIGN A.3):
// "!value e", "@name", "!tagged t", "$gontainer", else a parameter pattern.
func VF_C02_arg_string() {
	w := vfWire()
	var s string
	if vfChoice("family", 2) == 0 {
		// strings that look like one of the special forms
		s = vfStr("arg", vfBound("c02.arg", 10, 12))
		vfAssume(vfInRe(s, `\A(!value\s|@|!tagged\s|\$)`) && !strings.Contains(s, "%"))
	} else {
		// everything else, shorter: parameter patterns (their inner semantics are C03's subject)
		s = vfStr("arg", vfBound("c02.pattern", 5, 7))
		vfAssume(!vfInRe(s, `\A(!value\s|@|!tagged\s)`))
	}
	// an unquoted import followed by a dotted value is ambiguous in the
	// grammar itself (the docs say to quote): quoted import, or no dot
	vfAssume(!vfInRe(s, `\A!value\s`) || vfInRe(s, `\A!value\s+[^.]*\z`) || vfInRe(s, `\A!value\s+&?"[^"]*"\.[^.]*\z`))
	e, err := w.args.ResolveArg(s)
	if err == nil {
		vfObserve("code", e.Code)
	}
	noDeps := len(e.DependsOnParams) == 0 && len(e.DependsOnServices) == 0 && len(e.DependsOnTags) == 0
	switch {
	case vfInRe(s, `\A!value\s+`):
		if err == nil {
			vfAssert(strings.HasPrefix(e.Code, "dependencyValue(") && noDeps, "!value: a Go value without dependency")
			vfAssert(vfInRe(s, `\A!value\s+[&A-Za-z"]`), "!value: only documented forms are accepted")
		}
		vfTag("value")
	case vfInRe(s, `\A@`):
		name := strings.TrimPrefix(s, "@")
		vfAssert((err == nil) == vfInRe(name, `\A`+docName+`\z`), "@name: accepted iff a service name follows")
		if err == nil {
			vfAssert(e.Code == "dependencyService("+vfQuote(name)+")", "@name injects the named service")
			vfAssert(len(e.DependsOnServices) == 1 && e.DependsOnServices[0] == name && len(e.DependsOnParams) == 0 && len(e.DependsOnTags) == 0, "@name depends on exactly that service")
		}
	case vfInRe(s, `\A!tagged\s+`):
		vfAssert((err == nil) == vfInRe(s, `\A!tagged\s+`+docName+`\z`), "!tagged t: accepted iff a tag name follows")
		if err == nil {
			vfAssert(len(e.DependsOnTags) == 1 && len(e.DependsOnParams) == 0 && len(e.DependsOnServices) == 0, "!tagged depends on exactly one tag")
			if len(e.DependsOnTags) == 1 {
				t := e.DependsOnTags[0]
				vfAssert(strings.HasSuffix(s, t) && vfInRe(t, `\A`+docName+`\z`), "!tagged: the tag is the name written")
				vfAssert(e.Code == "dependencyTag("+vfQuote(t)+")", "!tagged injects the services carrying the tag")
			}
		}
	case s == "$gontainer":
		vfAssert(err == nil && e.Code == "dependencyValue(rootGontainer)" && noDeps, "$gontainer injects the container itself")
	default:
		// a parameter pattern
		if err == nil {
			vfAssert(strings.HasPrefix(e.Code, "dependencyProvider(") && len(e.DependsOnServices) == 0 && len(e.DependsOnTags) == 0, "any other string is an evaluated parameter pattern")
		}
		// balanced % are required
		if !vfInRe(s, `\A[^%]*(%[^%]*%[^%]*)*\z`) {
			vfAssert(err != nil, "an unbalanced % is rejected")
		}
		if !strings.Contains(s, "%") {
			vfAssert(err == nil && len(e.DependsOnParams) == 0, "a plain string is a literal")
			vfAssert(strings.Contains(e.Code, "return "+vfQuote(s)+", nil"), "a plain string evaluates to itself")
		}
	}
	vfReach("C02_arg_string")
}

// VF_C02_service: arguments and calls keep their order (with the wither
// flag), fields are emitted sorted by name, each with its own value.
func VF_C02_service() {
	w := vfWire()
	n1, n2 := vfStr("n1", 2), vfStr("n2", 2)
	vfAssume(vfInRe(n1, `\A`+docName+`\z`) && vfInRe(n2, `\A`+docName+`\z`))
	m1, m2, m3 := vfStr("m1", 3), vfStr("m2", 3), vfStr("m3", 3)
	f1, f2 := vfStr("f1", 2), vfStr("f2", 2)
	vfAssume(f1 != f2)
	i1, i2, i3 := vfBool("imm1"), vfBool("imm2"), vfBool("imm3")
	c := "New"
	// every argument list has its own length (0..2, omitted or empty when 0);
	// its elements rotate through the two references and a literal
	pool := []any{"@" + n1, "@" + n2, 7}
	wantDep := []string{n1, n2, ""}
	mk := func(tag string, off int) ([]any, []int) {
		k := vfChoice(tag+".len", 4)
		if k == 3 {
			return []any{}, nil
		}
		var l []any
		var ix []int
		for j := 0; j < k; j++ {
			x := (j + off) % 3
			l = append(l, pool[x])
			ix = append(ix, x)
		}
		return l, ix
	}
	a0, x0 := mk("ctor", 0)
	a1, x1 := mk("call1", 1)
	a2, x2 := mk("call2", 2)
	a3, x3 := mk("call3", 0)
	svc := input.Service{
		Constructor: &c,
		Args:        a0,
		Calls:       []input.Call{{Method: m1, Args: a1, Immutable: i1}, {Method: m2, Args: a2, Immutable: i2}, {Method: m3, Args: a3, Immutable: i3}},
		Fields:      map[string]any{f1: "@" + n1, f2: "@" + n2},
	}
	var o output.Output
	err := w.services.Process(input.Input{Services: map[string]input.Service{"svc": svc}}, &o)
	vfAssert(err == nil, "service compiles")
	vfAssert(len(o.Services) == 1, "one service")
	if err != nil || len(o.Services) != 1 {
		return
	}
	s := o.Services[0]
	dep := func(a output.Arg) string {
		if len(a.DependsOnServices) == 1 {
			return a.DependsOnServices[0]
		}
		return ""
	}
	same := func(got []output.Arg, ix []int) bool {
		if len(got) != len(ix) {
			return false
		}
		for j, x := range ix {
			if dep(got[j]) != wantDep[x] || (x == 2 && got[j].Code != "dependencyValue(int(7))") || (x != 2 && got[j].Code != "dependencyService("+vfQuote(wantDep[x])+")") {
				return false
			}
		}
		return true
	}
	vfAssert(s.Constructor == "New" && s.Value == "", "created by the declared constructor")
	vfAssert(same(s.Args, x0), "constructor arguments: exactly the declared ones, in declared order")
	vfAssert(len(s.Calls) == 3 && s.Calls[0].Method == m1 && s.Calls[1].Method == m2 && s.Calls[2].Method == m3, "calls in declared order")
	if len(s.Calls) == 3 {
		vfAssert(s.Calls[0].Immutable == i1 && s.Calls[1].Immutable == i2 && s.Calls[2].Immutable == i3, "wither flag preserved per call")
		vfAssert(same(s.Calls[0].Args, x1), "first call: exactly its own declared arguments, in order")
		vfAssert(same(s.Calls[1].Args, x2), "second call: exactly its own declared arguments, in order")
		vfAssert(same(s.Calls[2].Args, x3), "third call: exactly its own declared arguments, in order")
	}
	vfAssert(len(s.Fields) == 2, "both fields")
	if len(s.Fields) == 2 {
		vfAssert(s.Fields[0].Name < s.Fields[1].Name, "fields sorted by name")
		for _, f := range s.Fields {
			if f.Name == f1 {
				vfAssert(dep(f.Value) == n1, "field keeps its own value (first)")
			} else {
				vfAssert(f.Name == f2 && dep(f.Value) == n2, "field keeps its own value (second)")
			}
		}
	}
	vfReach("C02_service")
}

// VF_C02_creation: constructor / value / type are carried as declared.
func VF_C02_creation() {
	w := vfWire()
	id := vfStr("ident", 3)
	vfAssume(vfInRe(id, `\A`+docIdent+`\z`))
	var svc input.Service
	ptr := vfBool("ptr")
	kind := vfChoice("kind", 4)
	var want output.Service
	want.Type = "interface{}"
	switch kind {
	case 0:
		svc.Constructor = &id
		want.Constructor = id
	case 1:
		v := id
		if ptr {
			v = "&" + id
		}
		svc.Value = &v
		want.Value = v
	case 2:
		v := id + "{}"
		if ptr {
			v = "&" + v
		}
		svc.Value = &v
		want.Value = v
	case 3:
		t := id
		if ptr {
			t = "*" + id
		}
		svc.Type = &t
		want.Type = t
	}
	var o output.Output
	err := w.services.Process(input.Input{Services: map[string]input.Service{"svc": svc}}, &o)
	vfAssert(err == nil && len(o.Services) == 1, "service compiles")
	if len(o.Services) == 1 {
		s := o.Services[0]
		vfAssert(s.Constructor == want.Constructor && s.Value == want.Value && s.Type == want.Type, "creation method carried as declared (current package)")
		vfAssert(len(w.imports.Imports()) == 0, "current-package symbols import nothing")
	}
	vfReach("C02_creation")
}

// VF_C04_tags_decorators: tags keep name and priority (any int) per service;
// decorators keep file order, tag, function and arguments in order.
func VF_C04_tags_decorators() {
	w := vfWire()
	t1, t2 := vfStr("t1", 2), vfStr("t2", 2)
	p1, p2 := vfInt("p1"), vfInt("p2")
	c := "New"
	svc := input.Service{Constructor: &c, Tags: []input.Tag{{Name: t1, Priority: p1}, {Name: t2, Priority: p2}}}
	var o output.Output
	err := w.services.Process(input.Input{Services: map[string]input.Service{"svc": svc}}, &o)
	vfAssert(err == nil && len(o.Services) == 1, "service compiles")
	if len(o.Services) == 1 {
		tg := o.Services[0].Tags
		vfAssert(len(tg) == 2 && tg[0].Name == t1 && tg[0].Priority == p1 && tg[1].Name == t2 && tg[1].Priority == p2, "tags carried with their names and priorities unchanged")
	}
	d1, d2 := vfStr("d1", 2), vfStr("d2", 2)
	vfAssume(vfInRe(d1, `\A`+docIdent+`\z`) && vfInRe(d2, `\A`+docIdent+`\z`))
	n := vfStr("n", 2)
	vfAssume(vfInRe(n, `\A`+docName+`\z`))
	in := input.Input{Decorators: []input.Decorator{
		{Tag: t1, Decorator: d1, Args: []any{"@" + n, 5}},
		{Tag: t2, Decorator: d2, Args: []any{"!tagged " + n}},
	}}
	var o2 output.Output
	err = w.decs.Process(in, &o2)
	vfAssert(err == nil && len(o2.Decorators) == 2, "decorators compile")
	if len(o2.Decorators) == 2 {
		a, b := o2.Decorators[0], o2.Decorators[1]
		vfAssert(a.Tag == t1 && b.Tag == t2 && a.Decorator == d1 && b.Decorator == d2, "decorators keep declaration order, tag and function")
		vfAssert(len(a.Args) == 2 && len(a.Args[0].DependsOnServices) == 1 && a.Args[0].DependsOnServices[0] == n && a.Args[1].Code == "dependencyValue(int(5))", "decorator arguments in order")
		vfAssert(len(b.Args) == 1 && len(b.Args[0].DependsOnTags) == 1 && b.Args[0].DependsOnTags[0] == n && b.Args[0].Code == "dependencyTag("+vfQuote(n)+")", "!tagged in a decorator argument")
	}
	vfReach("C04_tags_decorators")
}

// VF_C15_todo: a todo service compiles to {name, todo} whatever its other
// attributes; a %todo(...)% parameter compiles to a provider calling paramTodo
// and counts as declared.
func VF_C15_todo() {
	w := vfWire()
	yes := true
	junk := vfStr("junk", 3)
	name := vfStr("name", 3)
	svc := input.Service{Todo: &yes, Getter: &junk, Type: &junk, Value: &junk, Constructor: &junk,
		Args: []any{junk}, Calls: []input.Call{{Method: junk, Args: []any{"@" + junk}}}, Fields: map[string]any{junk: junk}, Tags: []input.Tag{{Name: junk}}}
	// accepted by the validator whatever its attributes, even when its getter
	// equals the getter of a real service (a todo service's getter is never generated)
	shared := "GetReal"
	realCtor := "NewX"
	todoSvc := svc
	todoSvc.Getter = &shared
	verr := input.NewDefaultValidator("").Validate(input.Input{Services: map[string]input.Service{
		"todo": todoSvc, "zreal": {Constructor: &realCtor, Getter: &shared}}})
	vfAssert(verr == nil, "a todo service is accepted whatever its attributes, also next to a real service with the same getter")
	var o output.Output
	err := w.services.Process(input.Input{Services: map[string]input.Service{name: svc}}, &o)
	vfAssert(err == nil, "a todo service compiles whatever its attributes")
	vfAssert(len(o.Services) == 1, "the todo service is declared")
	if len(o.Services) == 1 {
		s := o.Services[0]
		vfAssert(s.Name == name && s.Todo, "compiled to {name, todo}")
		vfAssert(s.Getter == "" && s.Constructor == "" && s.Value == "" && len(s.Args) == 0 && len(s.Calls) == 0 && len(s.Fields) == 0 && len(s.Tags) == 0, "no attribute of a todo service reaches the output")
		vfAssert(output.ValidateServicesExist(output.Output{Services: []output.Service{s, {Name: "dep", Args: []output.Arg{{DependsOnServices: []string{name}}}}}}) == nil, "a todo service counts as declared for its dependants")
	}
	// %todo(args)% parameter
	var o2 output.Output
	args := vfStr("todoargs", 3)
	vfAssume(vfInRe(args, `\A[^\n%]*\z`))
	in := input.Input{Meta: input.Meta{Functions: vfBuiltins}, Params: map[string]any{"p": "%todo(" + args + ")%", "q": "%p%"}}
	vfAssert(w.meta.Process(in, &o2) == nil, "meta compiles")
	perr := w.pstep.Process(in, &o2)
	vfAssert(perr == nil && len(o2.Params) == 2, "todo parameter compiles")
	if len(o2.Params) == 2 {
		p := o2.Params[0]
		vfAssert(p.Name == "p" && len(p.DependsOn) == 0, "todo parameter has no dependency")
		if args == "" {
			vfAssert(strings.Contains(p.Code, "callProvider(paramTodo)"), "%todo()% calls paramTodo without arguments")
		} else {
			vfAssert(strings.Contains(p.Code, "callProvider(paramTodo, "+args+")"), "%todo(args)% calls paramTodo with the arguments")
		}
		vfAssert(output.ValidateParamsExist(o2) == nil, "a todo parameter counts as declared for its dependants")
	}
	vfReach("C15_todo")
}

// VF_C15_params_lazy: every string parameter is emitted as a provider
// function literal — never as an evaluated value — so that it is evaluated
// on first use; non-string literals are values.
func VF_C15_params_lazy() {
	w := vfWire()
	v := vfAny("v", 0)
	var o output.Output
	in := input.Input{Meta: input.Meta{Functions: vfBuiltins}, Params: map[string]any{"p": v}}
	vfAssert(w.meta.Process(in, &o) == nil, "meta compiles")
	if s, ok := v.(string); ok {
		vfAssume(vfRuneLen(s) <= vfBound("c15.len", 5, 8))
	}
	err := w.pstep.Process(in, &o)
	if err == nil && len(o.Params) == 1 {
		code := o.Params[0].Code
		if _, isStr := v.(string); isStr {
			vfAssert(strings.HasPrefix(code, "dependencyProvider(func"), "a string parameter is a lazily evaluated provider")
		} else {
			vfAssert(code == "dependencyValue("+exporter.MustExport(v)+")", "a non-string parameter is its literal value")
		}
	}
	vfReach("C15_params_lazy")
}

func init() { vfRegister("VF_C15_reference_lazy", VF_C15_reference_lazy) }

// VF_C15_reference_lazy: a parameter that refers to another one - alone
// ("%x%") or inside a longer pattern - is compiled into a run-time look-up of
// x and nothing else of x: whatever x is (a literal, a todo parameter), its
// definition is not copied into the dependant, so an override of x reaches
// every dependant not yet evaluated.
func VF_C15_reference_lazy() {
	w := vfWire()
	// the names are concrete (three shapes of the name grammar): what is checked is the
	// form of the compiled code, and concrete names keep it free of solver reasoning
	// about the quoting function
	x := []string{"t", "db", "a.b-c"}[vfChoice("x", 3)]
	var target any
	switch vfChoice("target", 3) {
	case 0:
		target = 5
	case 1:
		target = "lit"
	case 2:
		target = `%todo("m")%`
	}
	ref := "%" + x + "%"
	alone := vfBool("alone")
	if !alone {
		ref = "a" + ref
	}
	var o output.Output
	in := input.Input{Meta: input.Meta{Functions: vfBuiltins}, Params: map[string]any{x: target, "dep": ref}}
	vfAssert(w.meta.Process(in, &o) == nil, "meta compiles")
	err := w.pstep.Process(in, &o)
	vfAssert(err == nil && len(o.Params) == 2, "both parameters compile")
	if err != nil || len(o.Params) != 2 {
		return
	}
	for _, p := range o.Params {
		if p.Name != "dep" {
			continue
		}
		vfAssert(len(p.DependsOn) == 1 && p.DependsOn[0] == x, "the dependant depends on exactly the referenced parameter")
		vfAssert(strings.Contains(p.Code, "getParam("+vfQuote(x)+")"), "the reference is a run-time look-up of the referenced parameter")
		vfAssert(!strings.Contains(p.Code, "paramTodo") && !strings.Contains(p.Code, "dependencyValue("), "the definition of the referenced parameter is not copied into the dependant")
	}
	vfReach("C15_reference_lazy")
}

// VF_C14_positions: a package reference in every position and form resolves
// through the alias table to the package it denotes.
func VF_C14_positions() {
	// The alias table itself is checked with symbolic aliases, paths and
	// references (VF_C14_resolve / VF_C14_names). Here the reference *forms*
	// and *positions* are enumerated over a small concrete universe chosen to
	// contain the critical relations (an alias that is a string prefix of
	// another path segment, dotted host names, dotted values): with concrete
	// subjects the engine evaluates Go's regexp natively, so the unquoted
	// dotted forms keep Go's exact leftmost-first semantics.
	w := vfWire()
	al := []string{"a", "al", "x.y"}[vfChoice("alias", 3)]
	full := []string{"full/p", "github.com/u/r"}[vfChoice("full", 2)]
	vfAssert(w.imports.RegisterPrefixAlias(al, full) == nil, "alias registers")
	seg := []string{"s", "al", "a-b"}[vfChoice("seg", 3)]
	id := []string{"T", "Val"}[vfChoice("ident", 2)]

	ref, wantPath := "", ""
	switch vfChoice("form", 9) {
	case 7:
		// an alias followed by a sub-path of two segments
		ref, wantPath = al+"/"+seg+"/deep", full+"/"+seg+"/deep"
	case 8:
		ref, wantPath = "\""+al+"/"+seg+"/deep\"", full+"/"+seg+"/deep"
	case 0:
		ref, wantPath = al, full
	case 1:
		ref, wantPath = al+"/"+seg, full+"/"+seg
	case 2:
		ref, wantPath = "o/"+seg, "o/"+seg
	case 3:
		ref, wantPath = "\"o/"+seg+"\"", "o/"+seg
	case 4:
		ref, wantPath = "\""+al+"/"+seg+"\"", full+"/"+seg
	case 5:
		ref, wantPath = "\".\"", ""
	case 6:
		// an alias followed by more characters in the same segment is not the alias
		ref, wantPath = al+"b/"+seg, al+"b/"+seg
	}
	got := ""
	switch vfChoice("position", 6) {
	case 0:
		t := "*" + ref + "." + id
		got = strings.TrimPrefix(w.services.serviceType(&t), "*")
	case 1:
		v := "&" + ref + "." + id
		got = strings.TrimPrefix(w.services.serviceValue(&v), "&")
	case 2:
		v := ref + "." + id + "{}"
		got = strings.TrimSuffix(w.services.serviceValue(&v), "{}")
	case 3:
		c := ref + "." + id
		got = w.services.serviceConstructor(&c)
	case 4:
		d, derr := w.decs.processDecorator(input.Decorator{Tag: "t", Decorator: ref + "." + id})
		vfAssert(derr == nil, "decorator compiles")
		got = d.Decorator
	case 5:
		e, aerr := w.args.ResolveArg("!value " + ref + "." + id)
		vfAssert(aerr == nil, "!value argument compiles")
		got = strings.TrimSuffix(strings.TrimPrefix(e.Code, "dependencyValue("), ")")
	}
	vfObserve("compiled", got)
	if wantPath == "" {
		vfAssert(got == id, "\".\" denotes the current package: no qualifier")
		vfAssert(len(w.imports.Imports()) == 0, "\".\" imports nothing")
	} else {
		imps := w.imports.Imports()
		vfAssert(len(imps) == 1, "exactly the used package is imported")
		if len(imps) == 1 {
			vfAssert(imps[0].Path == wantPath, "the reference resolves to the package the alias table denotes")
			vfAssert(got == imps[0].Alias+"."+id, "the symbol is qualified with that package's local name")
		}
	}
	vfReach("C14_positions")
}

func init() { vfRegister("VF_C02_arg_independence", VF_C02_arg_independence) }

func init() { vfRegister("VF_C03_param_independence", VF_C03_param_independence) }

// VF_C03_param_independence: a parameter is compiled from its own value only:
// next to another parameter (of another type but, possibly, the same text) it
// compiles to what it compiles to alone.
func VF_C03_param_independence() {
	v0, v1 := vfAnyShort("v0"), vfAnyShort("v1")
	alone := func(name string, v any) (string, bool) {
		var o output.Output
		err := vfWire().pstep.Process(input.Input{Params: map[string]any{name: v}}, &o)
		if err != nil || len(o.Params) != 1 {
			return "", false
		}
		return o.Params[0].Code, true
	}
	c0, ok0 := alone("a", v0)
	c1, ok1 := alone("b", v1)
	vfAssume(ok0 && ok1)
	var o output.Output
	err := vfWire().pstep.Process(input.Input{Params: map[string]any{"a": v0, "b": v1}}, &o)
	vfAssert(err == nil && len(o.Params) == 2, "both parameters compile")
	if len(o.Params) == 2 {
		vfAssert(o.Params[0].Name == "a" && o.Params[1].Name == "b", "parameters in name order")
		vfAssert(o.Params[0].Code == c0, "the first parameter is what it would be alone")
		vfAssert(o.Params[1].Code == c1, "the second parameter is what it would be alone (its own YAML type and text)")
	}
	vfReach("C03_param_independence")
}

func vfAnyShort(name string) any {
	v := vfAny(name, 0)
	if s, ok := v.(string); ok {
		vfAssume(vfRuneLen(s) <= 3 && !strings.Contains(s, "%") && !vfInRe(s, `\A(@|!|\$)`))
	}
	return v
}

// VF_C02_arg_independence: every argument of a list is compiled on its own:
// what a position receives does not depend on the other arguments of the
// list (constructor arguments, call arguments, decorator arguments).
func VF_C02_arg_independence() {
	a0, a1 := vfAnyShort("a0"), vfAnyShort("a1")
	// each alone, on a resolver of its own (nothing the first leaves behind can reach the second)
	e0, err0 := vfWire().args.ResolveArg(a0)
	e1, err1 := vfWire().args.ResolveArg(a1)
	vfAssume(err0 == nil && err1 == nil)
	c := "New"
	var o output.Output
	var got []output.Arg
	switch vfChoice("position", 5) {
	case 3:
		// two decorators, one argument each
		err := vfWire().decs.Process(input.Input{Decorators: []input.Decorator{{Tag: "t", Decorator: "D", Args: []any{a0}}, {Tag: "u", Decorator: "E", Args: []any{a1}}}}, &o)
		vfAssert(err == nil && len(o.Decorators) == 2, "decorators compile")
		if len(o.Decorators) == 2 && len(o.Decorators[0].Args) == 1 && len(o.Decorators[1].Args) == 1 {
			got = []output.Arg{o.Decorators[0].Args[0], o.Decorators[1].Args[0]}
		}
	case 4:
		// two services, one argument each
		err := vfWire().services.Process(input.Input{Services: map[string]input.Service{"a": {Constructor: &c, Args: []any{a0}}, "b": {Constructor: &c, Args: []any{a1}}}}, &o)
		vfAssert(err == nil && len(o.Services) == 2, "services compile")
		if len(o.Services) == 2 && len(o.Services[0].Args) == 1 && len(o.Services[1].Args) == 1 {
			got = []output.Arg{o.Services[0].Args[0], o.Services[1].Args[0]}
		}
	case 0:
		err := vfWire().services.Process(input.Input{Services: map[string]input.Service{"svc": {Constructor: &c, Args: []any{a0, a1}}}}, &o)
		vfAssert(err == nil && len(o.Services) == 1, "service compiles")
		if len(o.Services) == 1 {
			got = o.Services[0].Args
		}
	case 1:
		err := vfWire().services.Process(input.Input{Services: map[string]input.Service{"svc": {Constructor: &c, Calls: []input.Call{{Method: "M", Args: []any{a0, a1}}}}}}, &o)
		vfAssert(err == nil && len(o.Services) == 1 && len(o.Services[0].Calls) == 1, "service compiles")
		if len(o.Services) == 1 && len(o.Services[0].Calls) == 1 {
			got = o.Services[0].Calls[0].Args
		}
	case 2:
		err := vfWire().decs.Process(input.Input{Decorators: []input.Decorator{{Tag: "t", Decorator: "D", Args: []any{a0, a1}}}}, &o)
		vfAssert(err == nil && len(o.Decorators) == 1, "decorator compiles")
		if len(o.Decorators) == 1 {
			got = o.Decorators[0].Args
		}
	}
	vfAssert(len(got) == 2, "both arguments are compiled")
	if len(got) == 2 {
		vfAssert(got[0].Code == e0.Code, "the first argument is what it would be alone")
		vfAssert(got[1].Code == e1.Code, "the second argument is what it would be alone")
	}
	vfReach("C02_arg_independence")
}
