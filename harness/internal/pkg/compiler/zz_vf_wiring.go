package compiler

import (
	"github.com/gontainer/gontainer/internal/pkg/consts"
	"github.com/gontainer/gontainer/internal/pkg/imports"
	"github.com/gontainer/gontainer/internal/pkg/resolver"
	"github.com/gontainer/gontainer/internal/pkg/token"
)

// vfWired mirrors internal/gontainer/gontainer_resolvers.yaml and
// gontainer_compiler.yaml (the documented wiring): one alias table shared by
// everything, token factories in the documented order, the six argument
// strategies in the documented order. (The C10/C16 harnesses execute the
// shipped wiring itself; this copy lets the per-step harnesses run without the
// container model.)
type vfWired struct {
	imports interface {
		Alias(string) string
		RegisterPrefixAlias(string, string) error
		Imports() []imports.Import
	}
	args     *resolver.ArgResolver
	params   *resolver.ParamResolver
	meta     *StepCompileMeta
	pstep    *StepCompileParams
	services *StepCompileServices
	decs     *StepCompileDecorators
}

func vfWire() *vfWired {
	im := imports.New()
	factory := token.NewStrategyFactory(
		token.FactoryPercentMark{},
		token.FactoryReference{},
		token.FactoryUnexpectedFunction{},
		token.FactoryUnexpectedToken{},
		token.FactoryString{},
	)
	fnReg := token.NewFuncRegisterer(factory, im)
	// StepDefaultInput registers the built-in functions through meta.functions
	tokenizer := token.NewTokenizer(token.NewChunker(), factory)
	pattern := resolver.NewPatternResolver(tokenizer)
	nonString := resolver.NewNonStringPrimitiveResolver()
	args := resolver.NewArgResolver(
		nonString,
		resolver.NewValueResolver(im),
		resolver.NewServiceResolver(),
		resolver.NewTaggedResolver(),
		resolver.NewFixedValueResolver(consts.SpecialGontainerID, consts.SpecialGontainerValue),
		pattern,
	)
	params := resolver.NewParamResolver(resolver.NewArgResolver(nonString, pattern))
	return &vfWired{
		imports: im, args: args, params: params,
		meta:     NewStepCompileMeta(im, fnReg),
		pstep:    NewStepCompileParams(params),
		services: NewStepCompileServices(im, args),
		decs:     NewStepCompileDecorators(im, args),
	}
}

var vfBuiltins = map[string]string{
	consts.FuncEnv:    consts.BuiltInGetEnv,
	consts.FuncEnvInt: consts.BuiltinGetEnvInt,
	consts.FuncTodo:   consts.BuiltInParamTodo,
}
