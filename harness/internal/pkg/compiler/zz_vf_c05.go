package compiler

import (
	"strings"

	"github.com/gontainer/gontainer/internal/pkg/input"
	"github.com/gontainer/gontainer/internal/pkg/output"
)

func init() { vfRegister("VF_C05_pipeline", VF_C05_pipeline) }

// VF_C05_pipeline: from the YAML-level configuration to the scope verdict:
// two services a -> b (the reference in an argument, a field or a call), each
// with a declared scope or none, b possibly a todo service: the declared
// scopes reach the compiled output unchanged and the configuration is
// rejected for scope reasons iff a is declared shared and b contextual.
func VF_C05_pipeline() {
	mk := func(name string) (*input.Scope, output.Scope) {
		k := vfChoice(name+".scope", 4)
		if k == 0 {
			return nil, output.ScopeDefault
		}
		s := input.Scope(k)
		want := output.ScopeShared
		switch s {
		case input.ScopeContextual:
			want = output.ScopeContextual
		case input.ScopeNonShared:
			want = output.ScopeNonShared
		}
		return &s, want
	}
	sa, wa := mk("a")
	sb, wb := mk("b")
	ctor := "New"
	a := input.Service{Constructor: &ctor, Scope: sa}
	switch vfChoice("position", 3) {
	case 0:
		a.Args = []any{"@b"}
	case 1:
		a.Fields = map[string]any{"F": "@b"}
	case 2:
		a.Calls = []input.Call{{Method: "M", Args: []any{"@b"}}}
	}
	b := input.Service{Constructor: &ctor, Scope: sb}
	todo := vfBool("b.todo")
	if todo {
		b.Todo = &todo
	}
	w := vfWire()
	c := New(NewStepValidateInput(input.NewDefaultValidator("")), w.meta, w.pstep, w.services, w.decs)
	o, err := c.Compile(input.Input{Services: map[string]input.Service{"a": a, "b": b}})
	vfAssert(err == nil && len(o.Services) == 2, "the configuration compiles")
	if err != nil || len(o.Services) != 2 {
		return
	}
	vfAssert(o.Services[0].Name == "a" && o.Services[0].Scope == wa, "the declared scope of a service reaches the compiled output")
	vfAssert(o.Services[1].Name == "b" && o.Services[1].Scope == wb, "the declared scope of a (todo) service reaches the compiled output")
	serr := output.ValidateServicesScopes(o)
	bad := wa == output.ScopeShared && wb == output.ScopeContextual
	vfAssert((serr != nil) == bad, "rejected for scope reasons iff a service declared shared depends on a contextual one (todo or not)")
	if serr != nil {
		vfAssert(strings.Contains(serr.Error(), vfQuote("a")) && strings.Contains(serr.Error(), vfQuote("b")), "the diagnostic names both services")
	}
	vfReach("C05_pipeline")
}
