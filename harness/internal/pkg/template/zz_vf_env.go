package template

import (
	"errors"

	"golang.org/x/tools/imports"
)

// Environment of the code formatter (DESIGN 3.9): go/format and
// x/tools/imports are stubbed as "fail or return the text unchanged".
type VfFmtEnvT struct {
	FormatErr  bool
	ImportsErr bool
	Calls      []string
}

var VfFmtEnv VfFmtEnvT

func vfStub_format_Source(b []byte) ([]byte, error) {
	VfFmtEnv.Calls = append(VfFmtEnv.Calls, "format")
	if VfFmtEnv.FormatErr {
		return nil, errors.New("1:1: expected 'package', found 'EOF'")
	}
	return b, nil
}

func vfStub_imports_Process(filename string, src []byte, opt *imports.Options) ([]byte, error) {
	VfFmtEnv.Calls = append(VfFmtEnv.Calls, "imports")
	if VfFmtEnv.ImportsErr {
		return nil, errors.New("imports: cannot process")
	}
	return src, nil
}
