package template

import (
	"errors"

	"golang.org/x/tools/imports"
)

// Environment of the code formatter (DESIGN 3.9): go/format is stubbed as
// "fail or return the text unchanged", x/tools/imports as "fail, or remove the
// imports the text does not use" (nothing is added: every generated import is
// spelled out by the head template).
type VfFmtEnvT struct {
	FormatErr  bool
	ImportsErr bool
	Calls      []string
}

var VfFmtEnv VfFmtEnvT

func vfStub_format_Source(b []byte) ([]byte, error) {
	VfFmtEnv.Calls = append(VfFmtEnv.Calls, "format")
	if VfFmtEnv.FormatErr {
		return nil, errors.New("1:1: expected 'package', found 'EOF'")
	}
	return b, nil
}

func vfStub_imports_Process(filename string, src []byte, opt *imports.Options) ([]byte, error) {
	VfFmtEnv.Calls = append(VfFmtEnv.Calls, "imports")
	if VfFmtEnv.ImportsErr {
		return nil, errors.New("imports: cannot process")
	}
	if opt != nil && opt.FormatOnly {
		// documented: with FormatOnly imports are neither added nor removed
		return src, nil
	}
	// the one effect of goimports the generator relies on: unused imports go
	return []byte(vfPruneImports(string(src))), nil
}
