package template

import (
	"github.com/gontainer/gontainer/internal/pkg/imports"
	"github.com/gontainer/gontainer/internal/pkg/output"
)

func init() {
	vfRegister("VF_C01_interpreter", VF_C01_interpreter)
}

type vfIdentity struct{}

func (vfIdentity) Format(s string) (string, error) { return s, nil }

func vfArg(code string, raw any) output.Arg { return output.Arg{Code: code, Raw: raw} }

// vfSampleOutput: concrete outputs covering every template feature.
func vfSampleOutput(k int) output.Output {
	o := output.Output{Meta: output.Meta{Pkg: "main", ContainerType: "Gontainer", ContainerConstructor: "NewGontainer"}}
	switch k {
	case 0: // empty
	case 1: // params of every literal kind
		o.Params = []output.Param{
			{Name: "a", Code: `dependencyValue(int(5))`, Raw: 5},
			{Name: "b", Code: `dependencyProvider(func() (r interface{}, err error) { return "x", nil })`, Raw: "x"},
			{Name: "c", Code: `dependencyValue(nil)`, Raw: nil},
			{Name: "d", Code: `dependencyValue(true)`, Raw: true},
		}
	case 2: // constructor service with everything
		o.Services = []output.Service{{
			Name: "db", Getter: "GetDB", MustGetter: true, Type: "*i0_sql.DB", Constructor: "i0_sql.Open",
			Args:   []output.Arg{vfArg(`dependencyValue(int(1))`, 1), vfArg(`dependencyService("logger")`, "@logger")},
			Calls:  []output.Call{{Method: "SetX", Args: []output.Arg{vfArg(`dependencyValue(true)`, true)}}, {Method: "WithY", Immutable: true}},
			Fields: []output.Field{{Name: "F", Value: vfArg(`dependencyValue("v")`, "v")}},
			Tags:   []output.Tag{{Name: "t1", Priority: 5}, {Name: "t2", Priority: -1}},
			Scope:  output.ScopeShared,
		}, {Name: "logger", Todo: true}}
		o.Decorators = []output.Decorator{{Tag: "t1", Decorator: "Decorate", Args: []output.Arg{vfArg(`dependencyValue(int(2))`, 2)}}, {Tag: "zz", Decorator: "Other"}}
	case 3: // value and type services, remaining scopes, getters without must
		o.Services = []output.Service{
			{Name: "v", Value: "&X{}", Type: "*X", Getter: "GetV", Scope: output.ScopeContextual},
			{Name: "w", Value: "pkg.W", Scope: output.ScopeNonShared},
			{Name: "t", Type: "T", Getter: "GetT", MustGetter: true, Scope: output.ScopeDefault},
			{Name: "u", Type: "interface{}", Constructor: "NewU"},
		}
	}
	return o
}

// VF_C01_interpreter: the symbolic template interpreter of the engine against
// Go's text/template on concrete outputs (the observation is compared between
// the engine's concrete run and the native run by the translator self-test).
func VF_C01_interpreter() {
	k := vfChoice("sample", 4)
	stub := vfChoice("stub", 2) == 1
	im := imports.New()
	_ = im.RegisterPrefixAlias("sql", "database/sql")
	b := NewBuilder(im, im, vfIdentity{}, "build-info", stub)
	text, err := b.Build(vfSampleOutput(k))
	vfAssert(err == nil, "sample output renders")
	vfObserve("text", text)
	vfReach("C01_interpreter")
}
