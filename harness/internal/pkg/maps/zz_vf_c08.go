package maps

func init() {
	vfRegister("VF_C08_keys", VF_C08_keys)
}

// VF_C08_keys: Keys / Iterate give the same sequence under every pair of
// iteration orders of the map.
func VF_C08_keys() {
	n := vfBound("c08.entries", 2, 3)
	m := map[string]int{}
	for i := 0; i < n; i++ {
		k := vfString("k")
		vfAssume(vfRuneLen(k) <= 3)
		for o := range m {
			vfAssume(o != k)
		}
		m[k] = i
	}
	a, b := Keys(m), Keys(m)
	vfAssert(len(a) == n && len(b) == n, "Keys returns every key")
	for i := range a {
		vfAssert(a[i] == b[i], "Keys is independent of the map's iteration order")
		if i > 0 {
			vfAssert(a[i-1] < a[i], "Keys is sorted")
		}
	}
	var s1, s2 string
	Iterate(m, func(k string, v int) { s1 += k + "," })
	Iterate(m, func(k string, v int) { s2 += k + "," })
	vfAssert(s1 == s2, "Iterate visits entries in an order independent of the map's iteration order")
	vfReach("C08_keys")
}
