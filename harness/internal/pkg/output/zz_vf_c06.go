package output

import (
	"strings"

	"github.com/gontainer/gontainer-helpers/v3/grouperror"
)

func init() {
	vfRegister("VF_C06_params", VF_C06_params)
	vfRegister("VF_C06_services", VF_C06_services)
	vfRegister("VF_C06_two", VF_C06_two)
}

func vfStr(name string, n int) string {
	s := vfString(name)
	vfAssume(vfRuneLen(s) <= n)
	return s
}

// vfPlace puts a reference to parameter x / service y at position pos of the
// output and returns the referrer text the diagnostics must contain.
//
//	0 parameter pattern, 1 constructor argument, 2 call argument, 3 field,
//	4 decorator argument
func vfPlace(o *Output, pos int, param, service []string) (paramReferrer, serviceReferrer string) {
	a := Arg{DependsOnParams: param, DependsOnServices: service}
	switch pos {
	case 0:
		if len(o.Params) == 0 {
			// no parameter to refer from: the referrer is a new parameter, itself declared
			o.Params = append(o.Params, Param{Name: "referrer"})
		}
		o.Params[0].DependsOn = append(o.Params[0].DependsOn, param...)
		return vfQuote("%" + o.Params[0].Name + "%"), ""
	case 1:
		if o.Services[0].Value != "" {
			// a value service has no constructor arguments: the reference goes to a call instead
			o.Services[0].Calls = append(o.Services[0].Calls, Call{Method: "M", Args: []Arg{a}})
			break
		}
		o.Services[0].Args = append(o.Services[0].Args, a)
	case 2:
		o.Services[0].Calls = append(o.Services[0].Calls, Call{Method: "M", Args: []Arg{a}})
	case 3:
		o.Services[0].Fields = append(o.Services[0].Fields, Field{Name: "F", Value: a})
	case 4:
		o.Decorators[0].Args = append(o.Decorators[0].Args, a)
		return "decorator(#0, " + vfQuote(o.Decorators[0].Tag) + ")", "decorator(#0, " + vfQuote(o.Decorators[0].Tag) + ")"
	}
	return vfQuote("@" + o.Services[0].Name), vfQuote(o.Services[0].Name)
}

func vfOutput() (Output, []string, []string) {
	ln := vfBound("c06.len", 4, 8)
	p0, p1 := vfStr("p0", ln), vfStr("p1", ln)
	s0, s1 := vfStr("s0", ln), vfStr("s1", ln)
	vfAssume(p0 != p1 && s0 != s1)
	// every list a reference can sit in starts with an argument that refers to
	// nothing: a reference is found wherever it stands, not only in first place
	lit := Arg{Code: "dependencyValue(1)"}
	o := Output{
		Params:     []Param{{Name: p0}, {Name: p1, Code: "todo"}},
		Services:   []Service{{Name: s0, Calls: []Call{{Method: "L", Args: []Arg{lit}}}, Fields: []Field{{Name: "L", Value: lit}}}, {Name: s1, Todo: true}},
		Decorators: []Decorator{{Tag: vfStr("dtag", ln), Decorator: "D", Args: []Arg{lit}}},
	}
	// the referrer is created by a constructor (then it may have arguments) or by a value
	if vfBool("byValue") {
		o.Services[0].Value = "V{}"
	} else {
		o.Services[0].Constructor = "New"
		o.Services[0].Args = []Arg{lit}
	}
	// 0, 1 or 2 declared parameters; 1 or 2 declared services (the first is the referrer)
	np, ns := vfChoice("params", 3), 1+vfChoice("services", 2)
	o.Params, o.Services = o.Params[:np], o.Services[:ns]
	return o, []string{p0, p1}[:np], []string{s0, s1}[:ns]
}

func vfIn(x string, set []string) bool {
	r := false
	for _, s := range set {
		r = vfOr(r, x == s)
	}
	return r
}

// VF_C06_params: a %param% reference in any position is accepted iff the
// parameter is declared; a dangling one is reported once, naming referrer and
// missing name; declared names (todo ones included) are never reported.
func VF_C06_params() {
	o, params, _ := vfOutput()
	x := vfStr("ref", vfBound("c06.len", 4, 8))
	pos := vfChoice("pos", 5)
	referrer, _ := vfPlace(&o, pos, []string{x}, nil)
	if pos == 0 && len(params) == 0 {
		params = []string{"referrer"}
	}
	err := ValidateParamsExist(o)
	if err != nil {
		vfObserve("diagnostics", err.Error())
	}
	dangling := !vfIn(x, params)
	vfAssertKnown((err != nil) == dangling, "missing parameter detected iff not declared", "D4", pos == 4)
	if err != nil {
		errs := grouperror.Collection(err)
		vfAssert(len(errs) == 1, "one diagnostic per dangling parameter reference")
		vfAssert(strings.Contains(err.Error(), "param "+vfQuote(x)+" does not exist"), "diagnostic names the missing parameter")
		vfAssert(strings.Contains(err.Error(), referrer), "diagnostic names the referrer")
	}
	vfAssert(ValidateServicesExist(o) == nil, "a parameter reference is not a service reference")
	vfReach("C06_params")
}

// VF_C06_services: the same for @service references (service arguments, call
// arguments, fields, decorator arguments).
func VF_C06_services() {
	o, _, services := vfOutput()
	y := vfStr("ref", vfBound("c06.len", 4, 8))
	pos := 1 + vfChoice("pos", 4)
	_, referrer := vfPlace(&o, pos, nil, []string{y})
	err := ValidateServicesExist(o)
	if err != nil {
		vfObserve("diagnostics", err.Error())
	}
	dangling := !vfIn(y, services)
	vfAssert((err != nil) == dangling, "missing service detected iff not declared")
	if err != nil {
		errs := grouperror.Collection(err)
		vfAssert(len(errs) == 1, "one diagnostic per dangling service reference")
		vfAssert(strings.Contains(err.Error(), "service "+vfQuote(y)+" does not exist"), "diagnostic names the missing service")
		vfAssert(strings.Contains(err.Error(), referrer), "diagnostic names the referrer")
	}
	vfAssert(ValidateParamsExist(o) == nil, "a service reference is not a parameter reference")
	vfReach("C06_services")
}

// VF_C06_two: two references in (possibly) different positions: the number of
// diagnostics is the number of dangling references.
func VF_C06_two() {
	o, params, services := vfOutput()
	ln := vfBound("c06.len", 4, 8)
	x, y := vfStr("x", ln), vfStr("y", ln)
	px, py := vfChoice("px", 4), 1+vfChoice("py", 3)
	vfPlace(&o, px, []string{x, x}, nil)
	if px == 0 && len(params) == 0 {
		params = []string{"referrer"}
	}
	vfPlace(&o, py, []string{y}, []string{y})
	perr, serr := ValidateParamsExist(o), ValidateServicesExist(o)
	wantP, wantS := 0, 0
	if !vfIn(x, params) {
		wantP += 2
	}
	if !vfIn(y, params) {
		wantP++
	}
	if !vfIn(y, services) {
		wantS++
	}
	vfAssert(len(grouperror.Collection(perr)) == wantP, "as many missing-parameter diagnostics as dangling references")
	vfAssert(len(grouperror.Collection(serr)) == wantS, "as many missing-service diagnostics as dangling references")
	vfReach("C06_two")
}
