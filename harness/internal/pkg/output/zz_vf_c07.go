package output

import (
	"strings"

	"github.com/gontainer/gontainer-helpers/v3/grouperror"
)

func init() {
	vfRegister("VF_C07_cycles", VF_C07_cycles)
	vfRegister("VF_C07_params", VF_C07_params)
	vfRegister("VF_C07_own_tag", VF_C07_own_tag)
	vfRegister("VF_C07_two_decorators", VF_C07_two_decorators)
	vfRegister("VF_C07_two_refs", VF_C07_two_refs)
	vfRegister("VF_C07_same_names", VF_C07_same_names)
	vfRegister("VF_C05_two_decorators", VF_C05_two_decorators)
	vfRegister("VF_C05_scopes", VF_C05_scopes)
}

// vfGraph is a small symbolic configuration: two (C05: three) services, each
// with one tag and one dependency slot per edge kind, two parameters, one
// decorator. All names are symbolic; a slot may name anything (a declared
// element, a dangling name, the element itself).
type vfGraph struct {
	o     Output
	svc   []string // service names
	tag   []string // tag carried by service i ("" = none)
	refS  []string // service i references @refS[i] ("" = none)
	refS2 []string // ... and, after it in the same argument list, @refS2[i]
	refT  []string // service i requests !tagged refT[i]
	refP  []string // service i references %refP[i]%
	par   []string
	parP  []string // parameter i references %parP[i]%
	// decorators, in declaration order
	dTag  []string
	dRefS []string
	dRefT []string
	dRefP []string
}

func vfOpt(name string, ln int) string {
	if !vfBool(name + ".set") {
		return ""
	}
	s := vfStr(name, ln)
	vfAssume(s != "")
	return s
}

func vfOne(s string) []string {
	if s == "" {
		return nil
	}
	return []string{s}
}

// vfShape says which optional slots exist (to keep path counts in check).
type vfShape struct {
	nsvc                   int
	tags, refS, refT, refP []bool // per service
	refS2                  []bool // per service: a second @service slot (nil = none)
	params                 int
	decorator              bool
	decorators             int // number of decorators when decorator is set (0 = 1)
	byValue                bool // each service is created by a constructor or (symbolic choice) by a value
	dRefS, dRefT, dRefP    bool
}

func vfAll(n int, b bool) []bool {
	r := make([]bool, n)
	for i := range r {
		r[i] = b
	}
	return r
}

func vfMakeGraph(nsvc int, withParams, withDecorator bool) *vfGraph {
	return vfMakeGraphK(nsvc, withParams, withDecorator, true)
}

// vfMakeGraphK: withServiceEdges=false leaves out the @service / !tagged
// slots (used by the parameter harness to keep the path count down).
func vfMakeGraphK(nsvc int, withParams, withDecorator, withServiceEdges bool) *vfGraph {
	sh := vfShape{nsvc: nsvc, tags: vfAll(nsvc, true), refS: vfAll(nsvc, withServiceEdges), refT: vfAll(nsvc, withServiceEdges),
		refP: vfAll(nsvc, withParams), decorator: withDecorator, dRefS: withServiceEdges, dRefT: withServiceEdges, dRefP: withParams}
	if withParams {
		sh.params = 2
	}
	return vfMakeGraphS(sh)
}

func vfSlot(on bool, name string, ln int) string {
	if !on {
		return ""
	}
	return vfOpt(name, ln)
}

func vfMakeGraphS(sh vfShape) *vfGraph {
	ln := vfBound("c07.len", 2, 3)
	g := &vfGraph{}
	for i := 0; i < sh.nsvc; i++ {
		n := vfStr("svc", ln)
		vfAssume(n != "")
		for _, m := range g.svc {
			vfAssume(n != m)
		}
		g.svc = append(g.svc, n)
		g.tag = append(g.tag, vfSlot(sh.tags[i], "tag", ln))
		g.refS = append(g.refS, vfSlot(sh.refS[i], "refS", ln))
		g.refS2 = append(g.refS2, vfSlot(sh.refS2 != nil && sh.refS2[i], "refS2", ln))
		g.refT = append(g.refT, vfSlot(sh.refT[i], "refT", ln))
		g.refP = append(g.refP, vfSlot(sh.refP[i], "refP", ln))
	}
	for i := 0; i < sh.params; i++ {
		n := vfStr("par", ln)
		vfAssume(n != "")
		for _, m := range g.par {
			vfAssume(n != m)
		}
		g.par = append(g.par, n)
		g.parP = append(g.parP, vfOpt("parP", ln))
	}
	withDecorator := sh.decorator
	nd := 0
	if withDecorator {
		nd = sh.decorators
		if nd == 0 {
			nd = 1
		}
	}
	for d := 0; d < nd; d++ {
		t := vfStr("dTag", ln)
		vfAssume(t != "")
		g.dTag = append(g.dTag, t)
		g.dRefS = append(g.dRefS, vfSlot(sh.dRefS, "dRefS", ln))
		g.dRefT = append(g.dRefT, vfSlot(sh.dRefT, "dRefT", ln))
		g.dRefP = append(g.dRefP, vfSlot(sh.dRefP, "dRefP", ln))
	}
	// build the Output, spreading the three slots over the three positions
	for i, n := range g.svc {
		s := Service{Name: n}
		if g.tag[i] != "" {
			s.Tags = []Tag{{Name: g.tag[i]}}
		}
		// created by a constructor, whose arguments hold the @service slots, or by a
		// value, where they sit in a call (a value service has no constructor arguments)
		byValue := sh.byValue && vfBool("byValue")
		if byValue {
			s.Value = "V{}"
		} else {
			s.Constructor = "New"
		}
		// a slot that is not used leaves no argument behind (a service may have no arguments at all)
		var refs []Arg
		if g.refS[i] != "" {
			refs = append(refs, Arg{DependsOnServices: vfOne(g.refS[i])})
		}
		if g.refS2[i] != "" {
			refs = append(refs, Arg{DependsOnServices: vfOne(g.refS2[i])})
		}
		if byValue && len(refs) > 0 {
			s.Calls = append(s.Calls, Call{Method: "R", Args: refs})
		} else {
			s.Args = refs
		}
		if g.refT[i] != "" {
			s.Calls = append(s.Calls, Call{Method: "M", Args: []Arg{{DependsOnTags: vfOne(g.refT[i])}}})
		}
		if g.refP[i] != "" {
			s.Fields = []Field{{Name: "F", Value: Arg{DependsOnParams: vfOne(g.refP[i])}}}
		}
		g.o.Services = append(g.o.Services, s)
	}
	for i, n := range g.par {
		g.o.Params = append(g.o.Params, Param{Name: n, DependsOn: vfOne(g.parP[i])})
	}
	for d := range g.dTag {
		g.o.Decorators = append(g.o.Decorators, Decorator{Tag: g.dTag[d], Decorator: "D", Args: []Arg{
			{DependsOnServices: vfOne(g.dRefS[d]), DependsOnTags: vfOne(g.dRefT[d]), DependsOnParams: vfOne(g.dRefP[d])},
		}})
	}
	return g
}

func vfNE(a, b string) bool { return vfAnd(a != "", a == b) }

// closure computes reachability over nodes [services..., params...] from the
// dependency relation of DESIGN A.5 (written from the property statement).
func (g *vfGraph) closure() [][]bool {
	ns, np := len(g.svc), len(g.par)
	n := ns + np
	r := make([][]bool, n)
	for i := range r {
		r[i] = make([]bool, n)
	}
	for i := 0; i < ns; i++ {
		for j := 0; j < ns; j++ {
			e := vfNE(g.refS[i], g.svc[j])         // @service
			e = vfOr(e, vfNE(g.refS2[i], g.svc[j])) // a second @service
			e = vfOr(e, vfNE(g.refT[i], g.tag[j])) // !tagged t, j carries t
			for d := range g.dTag {
				decorated := vfNE(g.tag[i], g.dTag[d])                    // decorator d is attached to my tag
				e = vfOr(e, vfAnd(decorated, vfNE(g.dRefS[d], g.svc[j]))) // ... and references @j
				e = vfOr(e, vfAnd(decorated, vfNE(g.dRefT[d], g.tag[j]))) // ... or requests a tag j carries
			}
			r[i][j] = e
		}
		for j := 0; j < np; j++ {
			e := vfNE(g.refP[i], g.par[j])
			for d := range g.dTag {
				e = vfOr(e, vfAnd(vfNE(g.tag[i], g.dTag[d]), vfNE(g.dRefP[d], g.par[j])))
			}
			r[i][ns+j] = e
		}
	}
	for i := 0; i < np; i++ {
		for j := 0; j < np; j++ {
			r[ns+i][ns+j] = vfNE(g.parP[i], g.par[j])
		}
	}
	for k := 0; k < n; k++ {
		for i := 0; i < n; i++ {
			for j := 0; j < n; j++ {
				r[i][j] = vfOr(r[i][j], vfAnd(r[i][k], r[k][j]))
			}
		}
	}
	return r
}

// VF_C07_cycles: rejected for cycles iff the dependency relation over
// services (through @service, !tagged, carried tags and decorators) is cyclic.
func VF_C07_cycles() {
	var g *vfGraph
	if vfBound("c07.full", 0, 1) == 1 {
		g = vfMakeGraph(2, false, true)
	} else {
		// quick: two services; s0 may carry a tag and refer to a service, s1 may refer to a
		// service and request a tag; one decorator on a tag referring to a service
		g = vfMakeGraphS(vfShape{nsvc: 2, tags: []bool{true, false}, refS: []bool{true, true}, refT: []bool{false, true},
			refP: []bool{false, false}, decorator: true, dRefS: true})
	}
	err := ValidateCircularDeps(g.o)
	r := g.closure()
	cyclic := false
	for i := range r {
		cyclic = vfOr(cyclic, r[i][i])
	}
	vfAssert((err != nil) == cyclic, "rejected for circular dependencies iff the dependency relation is cyclic")
	if err != nil {
		msg := err.Error()
		for i, n := range g.svc {
			if r[i][i] {
				vfAssert(strings.Contains(msg, "@"+n), "the report shows a cycle through each service lying on one")
			}
		}
		vfAssert(len(grouperror.Collection(err)) >= 1, "at least one cycle is reported")
	}
	vfReach("C07_cycles")
}

// VF_C07_own_tag: the shapes the quick form of VF_C07_cycles leaves out: a
// service that requests a tag it may carry itself, next to another carrier
// that may refer back.
func VF_C07_own_tag() {
	g := vfMakeGraphS(vfShape{nsvc: 2, tags: []bool{true, true}, refS: []bool{false, true}, refT: []bool{true, false},
		refP: []bool{false, false}, byValue: true})
	err := ValidateCircularDeps(g.o)
	r := g.closure()
	cyclic := false
	for i := range r {
		cyclic = vfOr(cyclic, r[i][i])
	}
	vfAssert((err != nil) == cyclic, "rejected for circular dependencies iff the dependency relation is cyclic (own tag)")
	if err != nil {
		for i, n := range g.svc {
			if r[i][i] {
				vfAssert(strings.Contains(err.Error(), "@"+n), "the report shows a cycle through each service lying on one")
			}
		}
	}
	vfReach("C07_own_tag")
}

// VF_C07_same_names: a service and a parameter whose names may coincide, each
// with a reference slot of its own kind: the report shows a cycle through every
// element lying on one, of either kind (a cycle among parameters is not the
// cycle among services of the same names).
func VF_C07_same_names() {
	g := vfMakeGraphS(vfShape{nsvc: 2, tags: []bool{false, false}, refS: []bool{true, true}, refT: []bool{false, false},
		refP: []bool{false, false}, params: 2})
	err := ValidateCircularDeps(g.o)
	r := g.closure()
	cyclic := false
	for i := range r {
		cyclic = vfOr(cyclic, r[i][i])
	}
	vfAssert((err != nil) == cyclic, "rejected for circular dependencies iff the dependency relation is cyclic (services and parameters)")
	if err != nil {
		msg := err.Error()
		for i, n := range g.svc {
			if r[i][i] {
				vfAssert(strings.Contains(msg, "@"+n), "the report shows a cycle through each service lying on one")
			}
		}
		for i, n := range g.par {
			if r[len(g.svc)+i][len(g.svc)+i] {
				vfAssert(strings.Contains(msg, "%"+n+"%"), "the report shows a cycle through each parameter lying on one")
			}
		}
	}
	vfReach("C07_same_names")
}

// VF_C07_two_refs: two @service references per service, each of which may be
// dangling: a dangling reference hides nothing that comes after it.
func VF_C07_two_refs() {
	g := vfMakeGraphS(vfShape{nsvc: 2, tags: []bool{false, false}, refS: []bool{true, true}, refS2: []bool{true, true}, refT: []bool{false, false},
		refP: []bool{false, false}, byValue: true})
	err := ValidateCircularDeps(g.o)
	r := g.closure()
	cyclic := false
	for i := range r {
		cyclic = vfOr(cyclic, r[i][i])
	}
	vfAssert((err != nil) == cyclic, "rejected for circular dependencies iff the dependency relation is cyclic (two references per service)")
	if err != nil {
		for i, n := range g.svc {
			if r[i][i] {
				vfAssert(strings.Contains(err.Error(), "@"+n), "the report shows a cycle through each service lying on one")
			}
		}
	}
	vfReach("C07_two_refs")
}

// VF_C07_two_decorators: two decorators on (possibly) different tags, each
// with its own @service reference: a decorator contributes its own
// dependencies only, and only to the services carrying its tag.
func VF_C07_two_decorators() {
	g := vfMakeGraphS(vfShape{nsvc: 2, tags: []bool{true, true}, refS: []bool{false, true}, refT: []bool{false, false},
		refP: []bool{false, false}, decorator: true, decorators: 2, dRefS: true})
	err := ValidateCircularDeps(g.o)
	r := g.closure()
	cyclic := false
	for i := range r {
		cyclic = vfOr(cyclic, r[i][i])
	}
	vfAssert((err != nil) == cyclic, "rejected for circular dependencies iff the dependency relation is cyclic (two decorators)")
	vfReach("C07_two_decorators")
}

// VF_C07_params: the same with parameter edges (%param% from parameters,
// services and decorators).
func VF_C07_params() {
	g := vfMakeGraphK(1, true, true, vfBound("c07.full", 0, 1) == 1)
	err := ValidateCircularDeps(g.o)
	r := g.closure()
	cyclic := false
	for i := range r {
		cyclic = vfOr(cyclic, r[i][i])
	}
	vfAssert((err != nil) == cyclic, "rejected for circular dependencies iff the dependency relation (with parameters) is cyclic")
	if err != nil {
		for i, n := range g.par {
			if r[1+i][1+i] {
				vfAssert(strings.Contains(err.Error(), "%"+n+"%"), "the report shows a cycle through each parameter lying on one")
			}
		}
	}
	vfReach("C07_params")
}

// VF_C05_scopes: a configuration is rejected for scope reasons iff some
// service declared shared transitively depends on a contextual one; each such
// pair is reported naming both services.
func VF_C05_scopes() {
	var g *vfGraph
	if vfBound("c05.full", 0, 1) == 1 {
		g = vfMakeGraph(2, false, true)
	} else {
		// quick: s0 -> (@ | !tagged); s1 carries a tag; a decorator on a tag refers to a service
		g = vfMakeGraphS(vfShape{nsvc: 2, tags: []bool{false, true}, refS: []bool{true, false}, refT: []bool{true, false},
			refP: []bool{false, false}, decorator: true, dRefS: true, byValue: true})
	}
	vfCheckScopes(g, "C05_scopes")
}

// VF_C05_two_decorators: the same over two decorators with their own @service
// references (a shared service is only affected by the decorators of its tag).
func VF_C05_two_decorators() {
	g := vfMakeGraphS(vfShape{nsvc: 2, tags: []bool{true, false}, refS: []bool{false, false}, refT: []bool{false, false},
		refP: []bool{false, false}, decorator: true, decorators: 2, dRefS: true})
	vfCheckScopes(g, "C05_two_decorators")
}

func vfCheckScopes(g *vfGraph, reach string) {
	scopes := make([]Scope, len(g.svc))
	for i := range scopes {
		sc := vfInt("scope")
		vfAssume(sc >= 0 && sc <= 3)
		scopes[i] = Scope(sc)
		g.o.Services[i].Scope = scopes[i]
	}
	err := ValidateServicesScopes(g.o)
	if err != nil {
		vfObserve("ndiagnostics", string(rune('0'+len(grouperror.Collection(err)))))
	}
	r := g.closure()
	want := 0
	bad := false
	for i := range g.svc {
		for j := range g.svc {
			if i == j {
				continue
			}
			offending := vfAnd(vfAnd(scopes[i] == ScopeShared, scopes[j] == ScopeContextual), r[i][j])
			bad = vfOr(bad, offending)
			if offending {
				want++
				if err != nil {
					vfAssert(strings.Contains(err.Error(), vfQuote(g.svc[i])+": service is shared, but dependant "+vfQuote(g.svc[j])+" is contextual"), "scope diagnostic names both services")
				}
			}
		}
	}
	vfAssert((err != nil) == bad, "rejected for scope reasons iff a shared service transitively depends on a contextual one")
	vfAssert(len(grouperror.Collection(err)) == want, "one scope diagnostic per offending pair")
	vfReach(reach)
}

func init() { vfRegister("VF_C08_scopes", VF_C08_scopes) }

// VF_C08_scopes: scope diagnostics are independent of map iteration order.
func VF_C08_scopes() {
	a, b := vfStr("svc", 3), vfStr("svc", 3)
	vfAssume(a != b && a != "" && b != "")
	o := Output{Services: []Service{
		{Name: a, Scope: ScopeShared, Args: []Arg{{DependsOnServices: []string{"c"}}}},
		{Name: b, Scope: ScopeShared, Args: []Arg{{DependsOnServices: []string{"c"}}}},
		{Name: "c", Scope: ScopeContextual},
	}}
	vfAssume(a != "c" && b != "c")
	e1, e2 := ValidateServicesScopes(o), ValidateServicesScopes(o)
	vfAssert(e1 != nil && e2 != nil, "both shared services are reported")
	if e1 != nil && e2 != nil {
		vfAssert(e1.Error() == e2.Error(), "scope diagnostics are independent of map iteration order")
	}
	vfReach("C08_scopes")
}
