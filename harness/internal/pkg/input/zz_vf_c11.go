package input

import (
	"github.com/gontainer/gontainer-helpers/v3/grouperror"
	"reflect"
	"strings"

	"github.com/gontainer/gontainer-helpers/v3/container"
)

// Reference grammar, written from docs/SERVICES.md, docs/META.md,
// docs/PARAMETERS.md, docs/DECORATORS.md and the statement of C11 —
// independently of internal/pkg/regex.
const (
	docIdent  = `[A-Za-z][A-Za-z0-9_]*`
	docName   = `[A-Za-z]([._-]?[A-Za-z0-9])*`
	docPath   = `[A-Za-z](/?[A-Za-z0-9._-])*`
	docImport = `(` + docPath + `|"` + docPath + `"|"\.")`
	docGoFunc = `(` + docImport + `\.)?` + docIdent
	docType   = `\*?(` + docImport + `\.)?` + docIdent
	docValue  = `(&?(` + docImport + `\.)?` + docIdent + `(\.` + docIdent + `)*|&?(` + docImport + `\.)?` + docIdent + `\{\})`
	docDecTag = `(\*|` + docName + `)`
)

func az(p string) string { return `\A(` + p + `)\z` }

func vfN(quick, thorough int) int { return vfBound("c11.len", quick, thorough) }

func init() {
	for n, f := range map[string]func(){
		"VF_C11_meta_pkg": VF_C11_meta_pkg, "VF_C11_meta_type": VF_C11_meta_type, "VF_C11_meta_ctor": VF_C11_meta_ctor,
		"VF_C11_import_alias": VF_C11_import_alias, "VF_C11_import_path": VF_C11_import_path,
		"VF_C11_fn_name": VF_C11_fn_name, "VF_C11_fn_gofunc": VF_C11_fn_gofunc,
		"VF_C11_param_name": VF_C11_param_name, "VF_C11_param_value": VF_C11_param_value,
		"VF_C11_service_name": VF_C11_service_name, "VF_C11_getter": VF_C11_getter,
		"VF_C11_type": VF_C11_type, "VF_C11_value": VF_C11_value, "VF_C11_constructor": VF_C11_constructor,
		"VF_C11_args": VF_C11_args, "VF_C11_call": VF_C11_call, "VF_C11_field": VF_C11_field,
		"VF_C11_tags": VF_C11_tags, "VF_C11_decorator": VF_C11_decorator, "VF_C11_creation": VF_C11_creation,
		"VF_C11_joint": VF_C11_joint, "VF_C11_todo": VF_C11_todo,
	} {
		vfRegister(n, f)
	}
}

func vfStr(name string, n int) string {
	s := vfString(name)
	vfAssume(vfRuneLen(s) <= n)
	return s
}

func vfValidService() Service {
	c := "NewX"
	return Service{Constructor: &c}
}

func vfWhole(i Input) error {
	err := NewDefaultValidator("").Validate(i)
	if err != nil {
		vfObserve("diagnostics", err.Error())
	}
	return err
}

func VF_C11_meta_pkg() {
	s := vfStr("pkg", vfN(8, 24))
	ok := vfInRe(s, az(docIdent))
	vfAssert((ValidateMetaPkg(Meta{Pkg: &s}) == nil) == ok, "meta.pkg accepted iff Go identifier")
	err := vfWhole(Input{Meta: Meta{Pkg: &s}})
	vfAssert((err == nil) == ok, "whole validator: meta.pkg")
	if err != nil {
		vfAssert(strings.Contains(err.Error(), "pkg") && strings.Contains(err.Error(), vfQuote(s)), "meta.pkg diagnostic names key and value")
	}
	vfReach("C11_meta_pkg")
}

func VF_C11_meta_type() {
	s := vfStr("ct", vfN(8, 24))
	ok := vfInRe(s, az(docIdent))
	vfAssert((ValidateMetaContainerType(Meta{ContainerType: &s}) == nil) == ok, "meta.container_type accepted iff Go identifier")
	err := vfWhole(Input{Meta: Meta{ContainerType: &s}})
	vfAssert((err == nil) == ok, "whole validator: meta.container_type")
	if err != nil {
		vfAssert(strings.Contains(err.Error(), "container_type"), "container_type diagnostic names the key")
	}
	vfReach("C11_meta_type")
}

func VF_C11_meta_ctor() {
	s := vfStr("cc", vfN(8, 24))
	ok := vfInRe(s, az(docIdent))
	vfAssert((ValidateMetaContainerConstructor(Meta{ContainerConstructor: &s}) == nil) == ok, "meta.container_constructor accepted iff Go identifier")
	err := vfWhole(Input{Meta: Meta{ContainerConstructor: &s}})
	vfAssert((err == nil) == ok, "whole validator: meta.container_constructor")
	if err != nil {
		vfAssert(strings.Contains(err.Error(), "container_constructor"), "container_constructor diagnostic names the key")
	}
	vfReach("C11_meta_ctor")
}

func VF_C11_import_alias() {
	a := vfStr("alias", vfN(8, 24))
	ok := vfInRe(a, az(docName))
	err := ValidateMetaImports(Meta{Imports: map[string]string{a: "my/pkg"}})
	vfAssert((err == nil) == ok, "import alias accepted iff name grammar")
	if err != nil {
		vfAssert(strings.Contains(err.Error(), vfQuote(a)), "import alias diagnostic names the alias")
	}
	vfAssert((vfWhole(Input{Meta: Meta{Imports: map[string]string{a: "my/pkg"}}}) == nil) == ok, "whole validator: import alias")
	vfReach("C11_import_alias")
}

func VF_C11_import_path() {
	p := vfStr("path", vfN(8, 20))
	ok := vfInRe(p, az(docImport))
	err := ValidateMetaImports(Meta{Imports: map[string]string{"a": p}})
	vfAssert((err == nil) == ok, "import path accepted iff import grammar")
	if err != nil {
		vfAssert(strings.Contains(err.Error(), vfQuote(p)), "import path diagnostic names the path")
	}
	vfAssert((vfWhole(Input{Meta: Meta{Imports: map[string]string{"a": p}}}) == nil) == ok, "whole validator: import path")
	vfReach("C11_import_path")
}

func VF_C11_fn_name() {
	f := vfStr("fn", vfN(8, 24))
	ok := vfInRe(f, az(docIdent))
	err := ValidateMetaFunctions(Meta{Functions: map[string]string{f: "os.Getenv"}})
	vfAssert((err == nil) == ok, "function name accepted iff Go identifier")
	if err != nil {
		vfAssert(strings.Contains(err.Error(), vfQuote(f)), "function name diagnostic names the function")
	}
	vfAssert((vfWhole(Input{Meta: Meta{Functions: map[string]string{f: "os.Getenv"}}}) == nil) == ok, "whole validator: function name")
	vfReach("C11_fn_name")
}

func VF_C11_fn_gofunc() {
	g := vfStr("gofn", vfN(8, 20))
	ok := vfInRe(g, az(docGoFunc))
	err := ValidateMetaFunctions(Meta{Functions: map[string]string{"f": g}})
	vfAssert((err == nil) == ok, "go function accepted iff [import.]identifier")
	if err != nil {
		vfAssert(strings.Contains(err.Error(), vfQuote(g)), "go function diagnostic names the function")
	}
	vfAssert((vfWhole(Input{Meta: Meta{Functions: map[string]string{"f": g}}}) == nil) == ok, "whole validator: go function")
	vfReach("C11_fn_gofunc")
}

func VF_C11_param_name() {
	n := vfStr("name", vfN(8, 24))
	ok := vfInRe(n, az(docName))
	err := ValidateParams(Input{Params: map[string]any{n: 1}})
	vfAssert((err == nil) == ok, "parameter name accepted iff name grammar")
	if err != nil {
		vfAssert(strings.Contains(err.Error(), vfQuote(n)), "parameter diagnostic names the parameter")
	}
	vfAssert((vfWhole(Input{Params: map[string]any{n: 1}}) == nil) == ok, "whole validator: parameter name")
	vfReach("C11_param_name")
}

func vfIsPrimitiveRef(v any) bool {
	switch v.(type) {
	case nil, string, bool, int, uint64, float64:
		return true
	}
	return false
}

func VF_C11_param_value() {
	v := vfAny("v", 1)
	err := ValidateParams(Input{Params: map[string]any{"p": v}})
	vfAssert((err == nil) == vfIsPrimitiveRef(v), "parameter value accepted iff primitive")
	if err != nil {
		vfAssert(strings.Contains(err.Error(), vfQuote("p")), "parameter value diagnostic names the parameter")
	}
	vfReach("C11_param_value")
}

func init() { vfRegister("VF_C11_param_both", VF_C11_param_both) }

// VF_C11_param_both: the name rule and the value rule of a parameter are
// independent: each defect is reported whether or not the other is present on
// the same key, so a key with both gets two diagnostics.
func VF_C11_param_both() {
	n := vfStr("name", vfN(4, 8))
	v := vfAny("v", 1)
	err := ValidateParams(Input{Params: map[string]any{n: v}})
	want := 0
	if !vfInRe(n, az(docName)) {
		want++
	}
	if !vfIsPrimitiveRef(v) {
		want++
	}
	vfAssert(len(grouperror.Collection(err)) == want, "one diagnostic per defect of a parameter (name and value are checked independently)")
	vfReach("C11_param_both")
}

func VF_C11_service_name() {
	n := vfStr("name", vfN(8, 24))
	ok := vfInRe(n, az(docName))
	vfAssert((ValidateServiceName(n) == nil) == ok, "service name accepted iff name grammar")
	err := vfWhole(Input{Services: map[string]Service{n: vfValidService()}})
	vfAssert((err == nil) == ok, "whole validator: service name")
	if err != nil {
		vfAssert(strings.Contains(err.Error(), vfQuote(n)), "service diagnostic names the service")
	}
	vfReach("C11_service_name")
}

// vfReserved: the container's own exported API — its methods and the field
// through which the generated type embeds it — read from the runtime type.
func vfReserved(g string) bool {
	t := reflect.TypeOf(container.New())
	if t.Elem().Name() == g {
		return true
	}
	for i := 0; i < t.NumMethod(); i++ {
		if t.Method(i).Name == g {
			return true
		}
	}
	return false
}

func VF_C11_getter() {
	g := vfStr("getter", vfN(12, 32))
	s := vfValidService()
	s.Getter = &g
	ok := vfInRe(g, az(docIdent)) && !vfReserved(g) && !strings.HasPrefix(g, "Must") && !strings.HasSuffix(g, "InContext")
	err := ValidateServiceGetter(s)
	vfAssert((err == nil) == ok, "getter accepted iff identifier, not reserved, not Must-prefixed, not InContext-suffixed")
	werr := vfWhole(Input{Services: map[string]Service{"svc": s}})
	vfAssert((werr == nil) == ok, "whole validator: getter")
	if werr != nil {
		vfAssert(strings.Contains(werr.Error(), "getter") && strings.Contains(werr.Error(), vfQuote("svc")), "getter diagnostic names service and key")
	}
	vfReach("C11_getter")
}

func VF_C11_type() {
	t := vfStr("type", vfN(8, 20))
	s := Service{Type: &t}
	ok := vfInRe(t, az(docType))
	vfAssert((ValidateServiceType(s) == nil) == ok, "type accepted iff [*][import.]identifier")
	err := vfWhole(Input{Services: map[string]Service{"svc": s}})
	vfAssert((err == nil) == ok, "whole validator: type")
	if err != nil {
		vfAssert(strings.Contains(err.Error(), "type") && strings.Contains(err.Error(), vfQuote(t)), "type diagnostic names key and value")
	}
	vfReach("C11_type")
}

func VF_C11_value() {
	v := vfStr("value", vfN(8, 20))
	s := Service{Value: &v}
	ok := vfInRe(v, az(docValue))
	vfAssert((ValidateServiceValue(s) == nil) == ok, "value accepted iff documented value form")
	err := vfWhole(Input{Services: map[string]Service{"svc": s}})
	vfAssert((err == nil) == ok, "whole validator: value")
	if err != nil {
		vfAssert(strings.Contains(err.Error(), "value") && strings.Contains(err.Error(), vfQuote(v)), "value diagnostic names key and value")
	}
	vfReach("C11_value")
}

func VF_C11_constructor() {
	c := vfStr("ctor", vfN(8, 20))
	s := Service{Constructor: &c}
	ok := vfInRe(c, az(docGoFunc))
	vfAssert((ValidateServiceConstructor(s) == nil) == ok, "constructor accepted iff [import.]identifier")
	err := vfWhole(Input{Services: map[string]Service{"svc": s}})
	vfAssert((err == nil) == ok, "whole validator: constructor")
	if err != nil {
		vfAssert(strings.Contains(err.Error(), "constructor") && strings.Contains(err.Error(), vfQuote(c)), "constructor diagnostic names key and value")
	}
	vfReach("C11_constructor")
}

func VF_C11_args() {
	a0, a1 := vfAny("a0", 1), vfAny("a1", 0)
	s := vfValidService()
	s.Args = []any{a0, a1}
	ok := vfIsPrimitiveRef(a0) && vfIsPrimitiveRef(a1)
	err := ValidateServiceArgs(s)
	vfAssert((err == nil) == ok, "arguments accepted iff all primitive")
	vfAssert((vfWhole(Input{Services: map[string]Service{"svc": s}}) == nil) == ok, "whole validator: arguments")
	if err != nil && !vfIsPrimitiveRef(a0) && !vfIsPrimitiveRef(a1) {
		vfAssert(strings.Contains(err.Error(), "arg 0") && strings.Contains(err.Error(), "arg 1"), "both bad arguments are reported")
	}
	vfReach("C11_args")
}

func VF_C11_call() {
	m := vfStr("method", vfN(8, 24))
	a := vfAny("a", 1)
	s := vfValidService()
	s.Calls = []Call{{Method: "Ok"}, {Method: m, Args: []any{a}}}
	ok := vfInRe(m, az(docIdent)) && vfIsPrimitiveRef(a)
	err := ValidateServiceCalls(s)
	vfAssert((err == nil) == ok, "call accepted iff method is an identifier and arguments primitive")
	vfAssert((vfWhole(Input{Services: map[string]Service{"svc": s}}) == nil) == ok, "whole validator: calls")
	if err != nil {
		vfAssert(strings.Contains(err.Error(), "calls: 1: "), "call diagnostic names the call index")
	}
	vfReach("C11_call")
}

func VF_C11_field() {
	f := vfStr("field", vfN(8, 24))
	v := vfAny("v", 1)
	s := vfValidService()
	s.Fields = map[string]any{f: v}
	ok := vfInRe(f, az(docIdent)) && vfIsPrimitiveRef(v)
	err := ValidateServiceFields(s)
	vfAssert((err == nil) == ok, "field accepted iff name is an identifier and value primitive")
	vfAssert((vfWhole(Input{Services: map[string]Service{"svc": s}}) == nil) == ok, "whole validator: fields")
	if err != nil {
		vfAssert(strings.Contains(err.Error(), vfQuote(f)), "field diagnostic names the field")
	}
	vfReach("C11_field")
}

func VF_C11_tags() {
	t0, t1 := vfStr("t0", vfN(4, 10)), vfStr("t1", vfN(4, 10))
	s := vfValidService()
	s.Tags = []Tag{{Name: t0, Priority: vfInt("p0")}, {Name: t1, Priority: vfInt("p1")}}
	ok := vfInRe(t0, az(docName)) && vfInRe(t1, az(docName)) && t0 != t1
	err := ValidateServiceTags(s)
	vfAssert((err == nil) == ok, "tags accepted iff names match and are pairwise distinct")
	vfAssert((vfWhole(Input{Services: map[string]Service{"svc": s}}) == nil) == ok, "whole validator: tags")
	if err != nil && t0 == t1 {
		vfAssert(strings.Contains(err.Error(), "duplicate "+vfQuote(t0)), "duplicate tag is reported by name")
	}
	vfReach("C11_tags")
}

func VF_C11_decorator() {
	which := vfChoice("pos", 3)
	d := Decorator{Tag: "tag", Decorator: "pkg.Decorate"}
	ok := true
	switch which {
	case 0:
		d.Tag = vfStr("tag", vfN(8, 24))
		ok = vfInRe(d.Tag, az(docDecTag))
	case 1:
		d.Decorator = vfStr("method", vfN(8, 20))
		ok = vfInRe(d.Decorator, az(docGoFunc))
	case 2:
		a := vfAny("a", 1)
		d.Args = []any{1, a}
		ok = vfIsPrimitiveRef(a)
	}
	i := Input{Decorators: []Decorator{{Tag: "*", Decorator: "Ok"}, d}}
	err := ValidateDecorators(i)
	vfAssert((err == nil) == ok, "decorator accepted iff tag, method and arguments are well-formed")
	vfAssert((vfWhole(i) == nil) == ok, "whole validator: decorators")
	if err != nil {
		vfAssert(strings.HasPrefix(err.Error(), "decorators: 1 "), "decorator diagnostic names the decorator index")
	}
	vfReach("C11_decorator")
}

// VF_C11_creation: the creation-method rules (constructor / value / type).
func VF_C11_creation() {
	var s Service
	c, v, t := "NewX", "X{}", "X"
	hasC, hasV, hasT, hasArgs := vfBool("hasCtor"), vfBool("hasValue"), vfBool("hasType"), vfBool("hasArgs")
	if hasC {
		s.Constructor = &c
	}
	if hasV {
		s.Value = &v
	}
	if hasT {
		s.Type = &t
	}
	if hasArgs {
		s.Args = []any{1}
	}
	ok := (hasC || hasV || hasT) && !(hasC && hasV) && !(hasArgs && !hasC)
	vfAssert((ValidateConstructorType(s) == nil) == ok, "creation-method rules")
	vfAssert((vfWhole(Input{Services: map[string]Service{"svc": s}}) == nil) == ok, "whole validator: creation-method rules")
	vfReach("C11_creation")
}

// VF_C11_joint: two independent defects are both reported in one run.
func VF_C11_joint() {
	pkg := vfStr("pkg", 4)
	g := vfStr("getter", 4)
	pn := vfStr("param", 4)
	tag := vfStr("dtag", 4)
	vfAssume(!vfInRe(pkg, az(docIdent)))
	vfAssume(!vfInRe(g, az(docIdent)))
	vfAssume(!vfInRe(pn, az(docName)))
	vfAssume(!vfInRe(tag, az(docDecTag)))
	s := vfValidService()
	s.Getter = &g
	i := Input{
		Meta:       Meta{Pkg: &pkg},
		Params:     map[string]any{pn: 1},
		Services:   map[string]Service{"svc": s},
		Decorators: []Decorator{{Tag: tag, Decorator: "D"}},
	}
	err := vfWhole(i)
	vfAssert(err != nil, "defective configuration is rejected")
	if err != nil {
		msg := err.Error()
		vfAssert(strings.Contains(msg, "pkg: invalid "+vfQuote(pkg)), "joint: meta.pkg defect reported")
		vfAssert(strings.Contains(msg, "getter: invalid "+vfQuote(g)), "joint: getter defect reported")
		vfAssert(strings.Contains(msg, vfQuote(pn)+": invalid name"), "joint: parameter defect reported")
		vfAssert(strings.Contains(msg, "tag: invalid "+vfQuote(tag)), "joint: decorator defect reported")
	}
	vfReach("C11_joint")
}

// VF_C11_todo: services marked todo are exempt from attribute checks (the
// name is still checked).
func VF_C11_todo() {
	yes := true
	bad := vfStr("bad", 4)
	n := vfStr("name", 4)
	s := Service{Todo: &yes, Getter: &bad, Type: &bad, Value: &bad, Constructor: &bad,
		Args: []any{[]any{}}, Calls: []Call{{Method: bad}}, Fields: map[string]any{bad: []any{}}, Tags: []Tag{{Name: bad}, {Name: bad}}}
	err := vfWhole(Input{Services: map[string]Service{n: s}})
	vfAssert((err == nil) == vfInRe(n, az(docName)), "todo service: only the name is validated")
	vfReach("C11_todo")
}

func init() {
	vfRegister("VF_C11_dup_getters", VF_C11_dup_getters)
	vfRegister("VF_C13_collisions", VF_C13_collisions)
}

// VF_C11_dup_getters: two services may not share a getter.
func VF_C11_dup_getters() {
	g1, g2 := vfStr("g1", 4), vfStr("g2", 4)
	vfAssume(vfInRe(g1, az(docIdent)) && vfInRe(g2, az(docIdent)))
	vfAssume(!vfReserved(g1) && !vfReserved(g2) && g1 != "Must" && g2 != "Must")
	s1, s2 := vfValidService(), vfValidService()
	s1.Getter, s2.Getter = &g1, &g2
	todo := vfBool("todo")
	s2.Todo = &todo
	err := vfWhole(Input{Services: map[string]Service{"a": s1, "b": s2}})
	// a todo service is exempt from attribute checks: its getter is never generated
	vfAssert((err == nil) == (g1 != g2 || todo), "duplicate getters are rejected, distinct ones accepted; a todo service is exempt")
	vfReach("C11_dup_getters")
}

// VF_C13_collisions: no accepted getter produces a method that collides with
// the container's own API: G, GInContext, MustG, MustGInContext are all
// different from every method and from the embedded field of the container.
func VF_C13_collisions() {
	g := vfStr("getter", vfBound("c13.len", 12, 24))
	s := vfValidService()
	s.Getter = &g
	err := ValidateServiceGetter(s)
	if err == nil {
		for _, m := range []string{g, g + "InContext", "Must" + g, "Must" + g + "InContext"} {
			vfAssert(!vfReserved(m), "a generated method never has the name of a container method")
			vfAssert(m != "Container", "a generated method never has the name of the embedded container field")
		}
	}
	vfReach("C13_collisions")
}

func init() { vfRegister("VF_C13_cross_collisions", VF_C13_cross_collisions) }

// vfASCIIn: an ASCII string of 1..max characters, character by character.
func vfASCIIn(name string, max int) string {
	return vfASCIIString(name, 1+vfChoice(name+".len", max))
}

// VF_C13_cross_collisions: in an accepted configuration the methods generated
// for two services never collide with each other: G, GInContext and, for a
// must-getter, MustG, MustGInContext of one service are all different from
// those of the other (getters are ASCII by grammar; anything else is rejected).
func VF_C13_cross_collisions() {
	g1, g2 := vfASCIIn("g1", vfBound("c13.cross", 5, 8)), vfASCIIn("g2", vfBound("c13.cross2", 2, 3))
	m1, m2 := vfBool("must1"), vfBool("must2")
	s1, s2 := vfValidService(), vfValidService()
	s1.Getter, s2.Getter = &g1, &g2
	s1.MustGetter, s2.MustGetter = &m1, &m2
	err := vfWhole(Input{Services: map[string]Service{"a": s1, "b": s2}})
	if err != nil {
		vfReach("C13_cross_collisions_rejected")
		return
	}
	names := func(g string, must bool) []string {
		r := []string{g, g + "InContext"}
		if must {
			r = append(r, "Must"+g, "Must"+g+"InContext")
		}
		return r
	}
	for _, a := range names(g1, m1) {
		for _, b := range names(g2, m2) {
			vfAssert(a != b, "the methods generated for two services never collide")
		}
	}
	vfReach("C13_cross_collisions")
}

func init() { vfRegister("VF_C02_call_yaml", VF_C02_call_yaml) }

// VF_C02_call_yaml: a call written [method], [method, args] or
// [method, args, wither] decodes into exactly that: the method, the argument
// list as written (also when it is empty) and the wither flag as written.
func VF_C02_call_yaml() {
	m := vfStr("method", 3)
	var args []interface{}
	na := vfChoice("nargs", 3)
	for i := 0; i < na; i++ {
		args = append(args, vfStr("arg", 2))
	}
	wither := vfBool("wither")
	var z []interface{}
	shape := vfChoice("shape", 3)
	switch shape {
	case 0:
		z = []interface{}{m}
	case 1:
		z = []interface{}{m, append([]interface{}{}, args...)}
	case 2:
		z = []interface{}{m, append([]interface{}{}, args...), wither}
	}
	var c Call
	err := c.UnmarshalYAML(func(p interface{}) error {
		*(p.(*[]interface{})) = z
		return nil
	})
	vfAssert(err == nil, "the three documented shapes of a call decode")
	vfAssert(c.Method == m, "the method as written")
	if shape >= 1 {
		vfAssert(len(c.Args) == na, "the argument list as written")
		for i := 0; i < na && i < len(c.Args); i++ {
			vfAssert(c.Args[i] == args[i], "each argument as written")
		}
	} else {
		vfAssert(len(c.Args) == 0, "no argument list, no arguments")
	}
	vfAssert(c.Immutable == (shape == 2 && wither), "the wither flag as written (false when left out), whatever the arguments")
	vfReach("C02_call_yaml")
}

func init() { vfRegister("VF_C04_tag_yaml", VF_C04_tag_yaml) }

// VF_C04_tag_yaml: a tag is a string (priority 0) or a mapping with a string
// name and an optional int priority that is kept unchanged.
func VF_C04_tag_yaml() {
	var v interface{}
	if !vfBool("structured") {
		v = vfAny("tag", 2)
	} else {
		m := map[string]interface{}{}
		if vfBool("has.name") {
			m["name"] = vfAny("name", 0)
		}
		if vfBool("has.priority") {
			m["priority"] = vfAny("priority", 0)
		}
		v = m
	}
	var t Tag
	err := t.UnmarshalYAML(func(p interface{}) error {
		*(p.(*interface{})) = v
		return nil
	})
	switch x := v.(type) {
	case string:
		vfAssert(err == nil && t.Name == x && t.Priority == 0, "string tag: that name, priority 0")
	case map[string]interface{}:
		n, hasN := x["name"]
		p, hasP := x["priority"]
		name, nameOK := n.(string)
		prio, prioOK := p.(int)
		ok := hasN && nameOK && (!hasP || prioOK)
		vfAssert((err == nil) == ok, "mapping tag: needs a string name and, if given, an int priority")
		if err == nil {
			vfAssert(t.Name == name, "mapping tag: name kept")
			if hasP {
				vfAssert(t.Priority == prio, "mapping tag: priority kept unchanged")
			} else {
				vfAssert(t.Priority == 0, "mapping tag: default priority 0")
			}
		}
	default:
		vfAssert(err != nil, "any other shape is rejected")
	}
	vfReach("C04_tag_yaml")
}

func init() { vfRegister("VF_C04_merge_order", VF_C04_merge_order) }

// VF_C04_merge_order: decorators of several files are applied in file order
// (the order in which the files are merged), each file's own order kept.
func VF_C04_merge_order() {
	mk := func(tag string) []Decorator {
		n := vfChoice(tag+".n", 3)
		var ds []Decorator
		for i := 0; i < n; i++ {
			ds = append(ds, Decorator{Tag: vfStr(tag+".tag", 2), Decorator: vfStr(tag+".fn", 2)})
		}
		return ds
	}
	f1, f2, f3 := Input{Decorators: mk("f1")}, Input{Decorators: mk("f2")}, Input{Decorators: mk("f3")}
	got := Merge(Merge(f1, f2), f3).Decorators
	var want []Decorator
	want = append(want, f1.Decorators...)
	want = append(want, f2.Decorators...)
	want = append(want, f3.Decorators...)
	vfAssert(len(got) == len(want), "every decorator of every file is kept")
	if len(got) == len(want) {
		for i := range want {
			vfAssert(got[i].Tag == want[i].Tag && got[i].Decorator == want[i].Decorator, "decorators keep file order across merged files")
		}
	}
	vfReach("C04_merge_order")
}

func init() { vfRegister("VF_C04_merge_tags", VF_C04_merge_tags) }

// VF_C04_merge_tags: a service declared in several files carries the tags of
// all of them, with their priorities, in file order.
func VF_C04_merge_tags() {
	mk := func(f string) Input {
		n := vfChoice(f+".n", 3)
		var ts []Tag
		for i := 0; i < n; i++ {
			ts = append(ts, Tag{Name: vfStr(f+".tag", 2), Priority: vfInt(f + ".prio")})
		}
		return Input{Services: map[string]Service{"svc": {Tags: ts}}}
	}
	f1, f2, f3 := mk("f1"), mk("f2"), mk("f3")
	got := Merge(Merge(f1, f2), f3).Services["svc"].Tags
	var want []Tag
	want = append(want, f1.Services["svc"].Tags...)
	want = append(want, f2.Services["svc"].Tags...)
	want = append(want, f3.Services["svc"].Tags...)
	vfAssert(len(got) == len(want), "every tag of every file is kept")
	if len(got) == len(want) {
		for i := range want {
			vfAssert(got[i].Name == want[i].Name && got[i].Priority == want[i].Priority, "tags keep their names, priorities and file order across merged files")
		}
	}
	vfReach("C04_merge_tags")
}
