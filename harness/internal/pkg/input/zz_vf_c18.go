package input

import (
	"golang.org/x/mod/semver"
)

func init() {
	vfRegister("VF_C18_suffixes", VF_C18_suffixes)
	vfRegister("VF_C18_gate", VF_C18_gate)
	vfRegister("VF_C18_parse", VF_C18_parse)
	vfRegister("VF_C18_skip", VF_C18_skip)
}

const docNum = `\A(0|[1-9][0-9]?)\z`

// vfNum: a canonical numeral of one or two digits, character by character.
func vfNum(name string) string {
	n := vfASCIIString(name, 1+vfChoice(name+".len", 2))
	vfAssume(vfInRe(n, docNum))
	return n
}

func vfDigit(name string) string {
	n := vfASCIIString(name, 1)
	vfAssume(vfInRe(n, `\A[0-9]\z`))
	return n
}

func vfASCII(name string, max int) string {
	return vfASCIIString(name, vfChoice(name+".len", max+1))
}

// vfNumLE compares canonical decimal numerals (no leading zeros).
func vfNumLE(a, b string) bool {
	if vfRuneLen(a) != vfRuneLen(b) {
		return vfRuneLen(a) < vfRuneLen(b)
	}
	return a <= b
}

func vfUnmarshalVersion(v any) (Version, error) {
	var ver Version
	err := ver.UnmarshalYAML(func(p interface{}) error {
		*(p.(*any)) = v
		return nil
	})
	return ver, err
}

// VF_C18_gate: the accept/reject rule of DESIGN A.8 over B and V built from
// symbolic major/minor/patch numerals and a symbolic suffix.
func VF_C18_gate() {
	bmaj, bmin, bpat := vfDigit("bmaj"), vfNum("bmin"), vfDigit("bpat")
	vmaj, vmin, vpat := vfDigit("vmaj"), vfNum("vmin"), vfDigit("vpat")
	n := vfBound("c18.suffix", 1, 2)
	bsuf, vsuf := vfASCII("bsuf", n), vfASCII("vsuf", n)
	vfAssume(vfInRe(bsuf, `\A([-+][0-9A-Za-z.-]*)?\z`))
	vfAssume(vfInRe(vsuf, `\A([-+][0-9A-Za-z.-]*)?\z`))
	B := bmaj + "." + bmin + "." + bpat + bsuf
	V := vmaj + "." + vmin + "." + vpat + vsuf

	ver, perr := vfUnmarshalVersion(V)
	if perr != nil {
		vfAssert(!semver.IsValid("v"+V), "a semantic version without leading v parses")
		vfReach("C18_gate_invalidV")
		return
	}
	vfAssert(string(ver) == V, "the declared version is stored as written")
	err := NewDefaultValidator(B).Validate(Input{Version: &ver})
	if err != nil {
		vfObserve("diagnostics", err.Error())
	}
	if !semver.IsValid("v" + B) {
		vfAssert(err == nil, "non-semver build: check skipped")
		vfReach("C18_gate_invalidB")
		return
	}
	var accept bool
	if bmaj == "0" {
		accept = vmaj == bmaj && vmin == bmin
	} else {
		accept = vmaj == bmaj && vfNumLE(vmin, bmin)
	}
	vfAssert((err == nil) == accept, "version gate: major 0 needs equal major.minor; major>=1 needs equal major and minor not greater")
	vfReach("C18_gate")
}

// VF_C18_parse: V must be a string holding a semantic version without leading v.
func VF_C18_parse() {
	v := vfAny("V", 0)
	if _, isStr := v.(string); !isStr {
		_, err := vfUnmarshalVersion(v)
		vfAssert(err != nil, "non-string version is a parse error")
		vfReach("C18_parse_kind")
		return
	}
	s := vfASCII("Vs", vfBound("c18.parse", 4, 6))
	_, err := vfUnmarshalVersion(s)
	vfAssert((err == nil) == semver.IsValid("v"+s), "string version parses iff v+V is a semantic version")
	if vfInRe(s, `\Av`) {
		vfAssert(err != nil, "a leading v is rejected")
	}
	vfReach("C18_parse")
}

// VF_C18_skip: no declared version, or a build that is not a semantic
// version (devel, dev-main, empty), skips the check.
func VF_C18_skip() {
	B := vfASCII("B", vfBound("c18.skip", 4, 6))
	vfAssert(NewDefaultValidator(B).Validate(Input{}) == nil, "no declared version: check skipped")
	if !semver.IsValid("v" + B) {
		ver := Version("1.2.3")
		vfAssert(NewDefaultValidator(B).Validate(Input{Version: &ver}) == nil, "non-semver build: check skipped")
	}
	vfReach("C18_skip")
}

// VF_C18_suffixes: longer, concrete prerelease / build suffixes on either
// side (the symbolic suffix of VF_C18_gate is one character in the quick
// tier): the decision depends on major and minor only.
func VF_C18_suffixes() {
	sufs := []string{"", "-rc.1", "+build.5", "-beta.2+exp.sha"}
	bmaj, bmin, bpat := vfDigit("bmaj"), vfNum("bmin"), vfDigit("bpat")
	vmaj, vmin, vpat := vfDigit("vmaj"), vfNum("vmin"), vfDigit("vpat")
	B := bmaj + "." + bmin + "." + bpat + sufs[vfChoice("bsuf", 4)]
	V := vmaj + "." + vmin + "." + vpat + sufs[vfChoice("vsuf", 4)]
	ver, perr := vfUnmarshalVersion(V)
	vfAssert(perr == nil && string(ver) == V, "a semantic version with any suffix parses and is stored as written")
	if perr != nil {
		return
	}
	err := NewDefaultValidator(B).Validate(Input{Version: &ver})
	var accept bool
	if bmaj == "0" {
		accept = vmaj == bmaj && vmin == bmin
	} else {
		accept = vmaj == bmaj && vfNumLE(vmin, bmin)
	}
	vfAssert((err == nil) == accept, "version gate: major and minor decide; patch, prerelease and build suffixes of either side never matter")
	vfReach("C18_suffixes")
}
