package input

func init() {
	vfRegister("VF_C09_ptr_attrs", VF_C09_ptr_attrs)
	vfRegister("VF_C09_lists", VF_C09_lists)
	vfRegister("VF_C09_maps", VF_C09_maps)
	vfRegister("VF_C09_services", VF_C09_services)
	vfRegister("VF_C09_identity", VF_C09_identity)
	vfRegister("VF_C09_meta", VF_C09_meta)
}

// --- equality that identifies nil with empty (DESIGN A.9) -------------------

func vfEqPtr[T comparable](a, b *T) bool {
	if a == nil || b == nil {
		return a == nil && b == nil
	}
	return *a == *b
}

func vfEqAnys(a, b []any) bool {
	if len(a) != len(b) {
		return false
	}
	ok := true
	for i := range a {
		ok = ok && a[i] == b[i]
	}
	return ok
}

func vfEqCalls(a, b []Call) bool {
	if len(a) != len(b) {
		return false
	}
	ok := true
	for i := range a {
		ok = ok && a[i].Method == b[i].Method && a[i].Immutable == b[i].Immutable && vfEqAnys(a[i].Args, b[i].Args)
	}
	return ok
}

func vfEqTags(a, b []Tag) bool {
	if len(a) != len(b) {
		return false
	}
	ok := true
	for i := range a {
		ok = ok && a[i] == b[i]
	}
	return ok
}

func vfEqAnyMap(a, b map[string]any) bool {
	if len(a) != len(b) {
		return false
	}
	ok := true
	for k, v := range a {
		w, has := b[k]
		ok = ok && has && v == w
	}
	return ok
}

func vfEqStrMap(a, b map[string]string) bool {
	if len(a) != len(b) {
		return false
	}
	ok := true
	for k, v := range a {
		w, has := b[k]
		ok = ok && has && v == w
	}
	return ok
}

func vfEqService(a, b Service) bool {
	return vfEqPtr(a.Getter, b.Getter) && vfEqPtr(a.MustGetter, b.MustGetter) && vfEqPtr(a.Type, b.Type) &&
		vfEqPtr(a.Value, b.Value) && vfEqPtr(a.Constructor, b.Constructor) && vfEqPtr(a.Scope, b.Scope) && vfEqPtr(a.Todo, b.Todo) &&
		vfEqAnys(a.Args, b.Args) && vfEqCalls(a.Calls, b.Calls) && vfEqTags(a.Tags, b.Tags) && vfEqAnyMap(a.Fields, b.Fields)
}

func vfEqDecorators(a, b []Decorator) bool {
	if len(a) != len(b) {
		return false
	}
	ok := true
	for i := range a {
		ok = ok && a[i].Tag == b[i].Tag && a[i].Decorator == b[i].Decorator && vfEqAnys(a[i].Args, b[i].Args)
	}
	return ok
}

func vfOptStr(name string) *string {
	if vfBool(name + ".set") {
		s := vfString(name)
		return &s
	}
	return nil
}

func vfOptBool(name string) *bool {
	if vfBool(name + ".set") {
		b := vfBool(name)
		return &b
	}
	return nil
}

func vfOptScope(name string) *Scope {
	if vfBool(name + ".set") {
		s := Scope(1 + vfChoice(name, 3))
		return &s
	}
	return nil
}

func vfLast[T any](ps ...*T) *T {
	var r *T
	for _, p := range ps {
		if p != nil {
			r = p
		}
	}
	return r
}

// VF_C09_ptr_attrs: every scalar attribute of a service — later file wins,
// associativity — one attribute at a time over all nil-patterns, plus the
// all-present pattern jointly.
func VF_C09_ptr_attrs() {
	var s [3]Service
	which := vfChoice("attr", 8)
	for i := range s {
		switch which {
		case 0:
			s[i].Getter = vfOptStr("getter")
		case 1:
			s[i].MustGetter = vfOptBool("must")
		case 2:
			s[i].Type = vfOptStr("type")
		case 3:
			s[i].Value = vfOptStr("value")
		case 4:
			s[i].Constructor = vfOptStr("ctor")
		case 5:
			s[i].Scope = vfOptScope("scope")
		case 6:
			s[i].Todo = vfOptBool("todo")
		case 7: // all present
			g, t, v, c := vfString("g"), vfString("t"), vfString("v"), vfString("c")
			m, td := vfBool("m"), vfBool("td")
			sc := Scope(1 + vfChoice("sc", 3))
			s[i] = Service{Getter: &g, Type: &t, Value: &v, Constructor: &c, MustGetter: &m, Todo: &td, Scope: &sc}
		}
	}
	l := mergeService(mergeService(s[0], s[1]), s[2])
	r := mergeService(s[0], mergeService(s[1], s[2]))
	vfAssert(vfEqService(l, r), "merge of scalar attributes is associative")
	want := Service{
		Getter: vfLast(s[0].Getter, s[1].Getter, s[2].Getter), MustGetter: vfLast(s[0].MustGetter, s[1].MustGetter, s[2].MustGetter),
		Type: vfLast(s[0].Type, s[1].Type, s[2].Type), Value: vfLast(s[0].Value, s[1].Value, s[2].Value),
		Constructor: vfLast(s[0].Constructor, s[1].Constructor, s[2].Constructor), Scope: vfLast(s[0].Scope, s[1].Scope, s[2].Scope),
		Todo: vfLast(s[0].Todo, s[1].Todo, s[2].Todo),
	}
	vfAssert(vfEqService(l, want), "the later file's scalar attribute overrides earlier ones")
	// the result does not alias its inputs
	if l.Getter != nil && s[2].Getter != nil {
		vfAssert(l.Getter != s[2].Getter, "merged pointers are fresh")
	}
	vfReach("C09_ptr_attrs")
}

func vfArgs(name string, max int) []any {
	// absent (nil), present but empty (`arguments: []` decodes to a non-nil
	// empty slice), or 1..max elements
	n := vfChoice(name+".len", max+2)
	if n == 0 {
		return nil
	}
	out := []any{}
	for i := 0; i < n-1; i++ {
		if i == 0 && vfIsPolymorphic {
			out = append(out, vfAny(name, 0))
		} else {
			out = append(out, any(vfString(name)))
		}
	}
	return out
}

// merge copies values without inspecting them; only the first element of one
// list ranges over the YAML kinds, the others are symbolic strings.
var vfIsPolymorphic = false

func vfCalls(name string, max int) []Call {
	n := vfChoice(name+".len", max+1)
	var out []Call
	for i := 0; i < n; i++ {
		out = append(out, Call{Method: vfString(name + ".method"), Immutable: vfBool(name + ".imm")})
	}
	return out
}

func vfTags(name string, max int) []Tag {
	n := vfChoice(name+".len", max+1)
	var out []Tag
	for i := 0; i < n; i++ {
		out = append(out, Tag{Name: vfString(name + ".name"), Priority: vfInt(name + ".prio")})
	}
	return out
}

// VF_C09_lists: arguments replace when non-empty; calls and tags append in
// file order; associativity.
func VF_C09_lists() {
	var s [3]Service
	which := vfChoice("attr", 3)
	mx := vfBound("c09.list", 1, 3)
	vfIsPolymorphic = which == 0
	defer func() { vfIsPolymorphic = false }()
	for i := range s {
		switch which {
		case 0:
			s[i].Args = vfArgs("args", mx)
		case 1:
			s[i].Calls = vfCalls("calls", mx)
		case 2:
			s[i].Tags = vfTags("tags", mx)
		}
	}
	l := mergeService(mergeService(s[0], s[1]), s[2])
	r := mergeService(s[0], mergeService(s[1], s[2]))
	vfAssert(vfEqService(l, r), "merge of list attributes is associative")
	var wantArgs []any
	for i := range s {
		if len(s[i].Args) > 0 {
			wantArgs = s[i].Args
		}
	}
	vfAssert(vfEqAnys(l.Args, wantArgs), "non-empty arguments replace earlier arguments")
	var wantCalls []Call
	var wantTags []Tag
	for i := range s {
		wantCalls = append(wantCalls, s[i].Calls...)
		wantTags = append(wantTags, s[i].Tags...)
	}
	vfAssert(vfEqCalls(l.Calls, wantCalls), "calls are appended in file order")
	vfAssert(vfEqTags(l.Tags, wantTags), "tags are appended in file order")
	vfReach("C09_lists")
}

func vfAnyMap(name string, keys []string) map[string]any {
	if !vfBool(name + ".set") {
		return nil
	}
	m := map[string]any{}
	for _, k := range keys {
		if vfBool(name + ".has") {
			m[k] = any(vfString(name + ".val"))
		}
	}
	return m
}

// VF_C09_maps: parameters and fields are united key-wise, later values win;
// associativity. Keys come from a universe of two symbolic names.
func VF_C09_maps() {
	k0, k1 := vfString("k0"), vfString("k1")
	vfAssume(k0 != k1)
	keys := []string{k0, k1}
	if vfChoice("which", 2) == 1 {
		vfC09Fields(keys)
		return
	}
	var in [3]Input
	for i := range in {
		in[i].Params = vfAnyMap("params", keys)
	}
	l := Merge(Merge(in[0], in[1]), in[2])
	r := Merge(in[0], Merge(in[1], in[2]))
	vfAssert(vfEqAnyMap(l.Params, r.Params), "merge of parameters is associative")
	for _, k := range keys {
		var want any
		has := false
		for i := range in {
			if v, ok := in[i].Params[k]; ok {
				want, has = v, true
			}
		}
		got, ok := l.Params[k]
		vfAssert(ok == has, "a parameter is present iff some file declares it")
		if ok && has {
			vfAssert(got == want, "the later file's parameter value wins")
		}
	}
	vfAssert(len(l.Params) <= 2, "no other parameter appears")
	vfReach("C09_maps")
}

func vfC09Fields(keys []string) {
	var s [3]Service
	for i := range s {
		s[i].Fields = vfAnyMap("fields", keys)
	}
	lf := mergeService(mergeService(s[0], s[1]), s[2])
	rf := mergeService(s[0], mergeService(s[1], s[2]))
	vfAssert(vfEqAnyMap(lf.Fields, rf.Fields), "merge of fields is associative")
	for _, k := range keys {
		var want any
		has := false
		for i := range s {
			if v, ok := s[i].Fields[k]; ok {
				want, has = v, true
			}
		}
		got, ok := lf.Fields[k]
		vfAssert(ok == has, "a field is present iff some file declares it")
		if ok && has {
			vfAssert(got == want, "the later file's field value wins")
		}
	}
	vfReach("C09_maps_fields")
}

// VF_C09_meta: imports and functions united key-wise; scalar meta attributes
// overridden; associativity.
func VF_C09_meta() {
	k0, k1 := vfString("k0"), vfString("k1")
	vfAssume(k0 != k1)
	which := vfChoice("component", 5)
	var in [3]Input
	for i := range in {
		switch which {
		case 0:
			if vfBool("imports.set") {
				in[i].Meta.Imports = map[string]string{}
				if vfBool("imports.has0") {
					in[i].Meta.Imports[k0] = vfString("imp")
				}
				if vfBool("imports.has1") {
					in[i].Meta.Imports[k1] = vfString("imp")
				}
			}
		case 1:
			if vfBool("functions.set") {
				in[i].Meta.Functions = map[string]string{}
				if vfBool("functions.has0") {
					in[i].Meta.Functions[k0] = vfString("fn")
				}
				if vfBool("functions.has1") {
					in[i].Meta.Functions[k1] = vfString("fn")
				}
			}
		case 2:
			in[i].Meta.Pkg = vfOptStr("pkg")
			in[i].Meta.ContainerType = vfOptStr("ct")
		case 3:
			in[i].Meta.DefaultMustGetter = vfOptBool("dmg")
			in[i].Meta.ContainerConstructor = vfOptStr("cc")
		case 4:
			in[i].Version = (*Version)(vfOptStr("version"))
		}
	}
	l := Merge(Merge(in[0], in[1]), in[2])
	r := Merge(in[0], Merge(in[1], in[2]))
	vfAssert(vfEqStrMap(l.Meta.Imports, r.Meta.Imports) && vfEqStrMap(l.Meta.Functions, r.Meta.Functions), "merge of imports/functions is associative")
	vfAssert(vfEqPtr(l.Meta.Pkg, r.Meta.Pkg) && vfEqPtr(l.Meta.DefaultMustGetter, r.Meta.DefaultMustGetter) && vfEqPtr(l.Version, r.Version) &&
		vfEqPtr(l.Meta.ContainerType, r.Meta.ContainerType) && vfEqPtr(l.Meta.ContainerConstructor, r.Meta.ContainerConstructor), "merge of meta scalars is associative")
	vfAssert(vfEqPtr(l.Meta.Pkg, vfLast(in[0].Meta.Pkg, in[1].Meta.Pkg, in[2].Meta.Pkg)), "later meta.pkg wins")
	vfAssert(vfEqPtr(l.Meta.ContainerType, vfLast(in[0].Meta.ContainerType, in[1].Meta.ContainerType, in[2].Meta.ContainerType)), "later meta.container_type wins")
	vfAssert(vfEqPtr(l.Meta.ContainerConstructor, vfLast(in[0].Meta.ContainerConstructor, in[1].Meta.ContainerConstructor, in[2].Meta.ContainerConstructor)), "later meta.container_constructor wins")
	vfAssert(vfEqPtr(l.Meta.DefaultMustGetter, vfLast(in[0].Meta.DefaultMustGetter, in[1].Meta.DefaultMustGetter, in[2].Meta.DefaultMustGetter)), "later meta.default_must_getter wins")
	vfAssert(vfEqPtr(l.Version, vfLast(in[0].Version, in[1].Version, in[2].Version)), "later version wins")
	for _, k := range []string{k0, k1} {
		want, has := "", false
		for i := range in {
			if v, ok := in[i].Meta.Imports[k]; ok {
				want, has = v, true
			}
		}
		got, ok := l.Meta.Imports[k]
		vfAssert(ok == has && (!ok || got == want), "imports: union, later value wins")
		want, has = "", false
		for i := range in {
			if v, ok := in[i].Meta.Functions[k]; ok {
				want, has = v, true
			}
		}
		got, ok = l.Meta.Functions[k]
		vfAssert(ok == has && (!ok || got == want), "functions: union, later value wins")
	}
	vfReach("C09_meta")
}

// VF_C09_services: services present in one side only are taken as they are,
// services present in both are merged attribute-wise; decorators append.
func VF_C09_services() {
	n0, n1 := vfString("n0"), vfString("n1")
	vfAssume(n0 != n1)
	mk := func(tag string) Service {
		g := vfString(tag + ".getter")
		return Service{Getter: &g, Args: []any{vfString(tag + ".arg")}, Tags: []Tag{{Name: vfString(tag + ".tag"), Priority: vfInt(tag + ".prio")}}}
	}
	var in [3]Input
	for i := range in {
		if vfBool("services.set") {
			in[i].Services = map[string]Service{}
			if vfBool("has0") {
				in[i].Services[n0] = mk("s0")
			}
			if vfBool("has1") {
				in[i].Services[n1] = mk("s1")
			}
		}
		in[i].Decorators = []Decorator{{Tag: vfString("dtag"), Decorator: vfString("dfn"), Args: []any{vfString("darg")}}}
	}
	l := Merge(Merge(in[0], in[1]), in[2])
	r := Merge(in[0], Merge(in[1], in[2]))
	vfAssert(len(l.Services) == len(r.Services), "merge of services is associative (keys)")
	for _, n := range []string{n0, n1} {
		ls, lok := l.Services[n]
		rs, rok := r.Services[n]
		vfAssert(lok == rok, "merge of services is associative (presence)")
		if lok && rok {
			vfAssert(vfEqService(ls, rs), "merge of services is associative (content)")
		}
		// reference: fold of the declaring files
		var want Service
		has := false
		for i := range in {
			if s, ok := in[i].Services[n]; ok {
				if !has {
					want, has = s, true
				} else {
					want = Service{Getter: vfLast(want.Getter, s.Getter), Tags: append(append([]Tag{}, want.Tags...), s.Tags...)}
					if len(s.Args) > 0 {
						want.Args = s.Args
					} else {
						for j := 0; j < i; j++ {
							if p, ok := in[j].Services[n]; ok && len(p.Args) > 0 {
								want.Args = p.Args
							}
						}
					}
				}
			}
		}
		vfAssert(lok == has, "a service is present iff some file declares it")
		if lok && has {
			vfAssert(vfEqPtr(ls.Getter, want.Getter) && vfEqTags(ls.Tags, want.Tags) && vfEqAnys(ls.Args, want.Args), "a service split over files merges attribute-wise")
		}
	}
	var wantDec []Decorator
	for i := range in {
		wantDec = append(wantDec, in[i].Decorators...)
	}
	vfAssert(vfEqDecorators(l.Decorators, wantDec) && vfEqDecorators(r.Decorators, wantDec), "decorators are appended in file order")
	vfReach("C09_services")
}

// VF_C09_identity: the empty file is a left and right identity.
func VF_C09_identity() {
	n := vfString("n")
	g, c := vfString("g"), vfString("c")
	sc := Scope(1 + vfChoice("sc", 3))
	td := vfBool("td")
	svc := Service{Getter: &g, Constructor: &c, Scope: &sc, Todo: &td, Args: []any{vfAny("arg0", 0), vfString("arg1")},
		Calls: []Call{{Method: vfString("m"), Args: []any{vfString("ca")}, Immutable: vfBool("imm")}},
		Tags:  []Tag{{Name: vfString("tn"), Priority: vfInt("tp")}}, Fields: map[string]any{vfString("f"): vfString("fv")}}
	a := Input{
		Version:    (*Version)(vfOptStr("version")),
		Meta:       Meta{Pkg: vfOptStr("pkg"), Imports: map[string]string{vfString("ia"): vfString("ip")}},
		Params:     map[string]any{vfString("p"): vfString("pv")},
		Services:   map[string]Service{n: svc},
		Decorators: []Decorator{{Tag: vfString("dt"), Decorator: vfString("df")}},
	}
	for side := 0; side < 2; side++ {
		var m Input
		if side == 0 {
			m = Merge(a, Input{})
		} else {
			m = Merge(Input{}, a)
		}
		vfAssert(vfEqPtr(m.Version, a.Version) && vfEqPtr(m.Meta.Pkg, a.Meta.Pkg), "identity: scalars")
		vfAssert(vfEqStrMap(m.Meta.Imports, a.Meta.Imports) && vfEqAnyMap(m.Params, a.Params), "identity: maps")
		ms, ok := m.Services[n]
		vfAssert(ok && len(m.Services) == 1, "identity: services keys")
		if ok {
			vfAssert(vfEqService(ms, svc), "identity: service content")
		}
		vfAssert(vfEqDecorators(m.Decorators, a.Decorators), "identity: decorators")
	}
	vfReach("C09_identity")
}
