package input

import "errors"

func init() {
	vfRegister("VF_C12_unmarshal", VF_C12_unmarshal)
}

// VF_C12_unmarshal: the custom YAML unmarshalers return (error or value) on
// every shape the decoder can hand them, and when the decoder itself fails.
func VF_C12_unmarshal() {
	var v interface{}
	if !vfBool("structured") {
		v = vfAny("node", 2)
	} else {
		// a mapping with the keys the Tag unmarshaler looks at, of arbitrary kinds
		m := map[string]interface{}{}
		if vfBool("has.name") {
			m["name"] = vfAny("name", 0)
		}
		if vfBool("has.priority") {
			m["priority"] = vfAny("priority", 0)
		}
		v = m
	}
	fail := vfBool("decoderFails")
	cb := func(p interface{}) error {
		if fail {
			return errors.New("yaml: cannot unmarshal")
		}
		switch q := p.(type) {
		case *interface{}:
			*q = v
		case *[]interface{}:
			s, ok := v.([]interface{})
			if !ok {
				return errors.New("yaml: cannot unmarshal into []interface {}")
			}
			*q = s
		case *string:
			s, ok := v.(string)
			if !ok {
				return errors.New("yaml: cannot unmarshal into string")
			}
			*q = s
		}
		return nil
	}
	switch vfChoice("type", 4) {
	case 0:
		var c Call
		err := c.UnmarshalYAML(cb)
		if err == nil {
			vfAssert(!fail, "Call: decoder failure is reported")
		}
	case 1:
		var t Tag
		err := t.UnmarshalYAML(cb)
		if err == nil {
			vfAssert(!fail, "Tag: decoder failure is reported")
		}
	case 2:
		var s Scope
		err := s.UnmarshalYAML(cb)
		if err == nil {
			vfAssert(!fail && s >= ScopeShared && s <= ScopeNonShared, "Scope: only the three keywords parse")
		}
	case 3:
		var ver Version
		if s, ok := v.(string); ok {
			vfAssume(vfInRe(s, `\A[\x00-\x7f]{0,5}\z`))
		}
		err := ver.UnmarshalYAML(cb)
		if err == nil {
			vfAssert(!fail, "Version: decoder failure is reported")
		}
	}
	vfReach("C12_unmarshal")
}
