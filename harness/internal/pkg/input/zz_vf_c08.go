package input

import "github.com/gontainer/gontainer-helpers/v3/grouperror"

func init() {
	vfRegister("VF_C08_meta_validators", VF_C08_meta_validators)
	vfRegister("VF_C08_validators", VF_C08_validators)
	vfRegister("VF_C08_merge", VF_C08_merge)
}

// vfSameErrors: the same diagnostics in the same order (compared one by one,
// which keeps the solver queries small).
func vfSameErrors(e1, e2 error) bool {
	a, b := grouperror.Collection(e1), grouperror.Collection(e2)
	if len(a) != len(b) {
		return false
	}
	ok := true
	for i := range a {
		ok = vfAnd(ok, a[i].Error() == b[i].Error())
	}
	return ok
}

func vfTwoKeys(name string) (string, string) {
	a, b := vfString(name), vfString(name)
	vfAssume(vfRuneLen(a) <= 3 && vfRuneLen(b) <= 3 && a != b)
	return a, b
}

// VF_C08_meta_validators: diagnostics for meta.imports / meta.functions do
// not depend on the iteration order of the mappings.
func VF_C08_meta_validators() {
	a, b := vfTwoKeys("alias")
	// both entries are defective in key and value, so that the order of the
	// diagnostics is observable
	vfAssume(!vfInRe(a, az(docName)) && !vfInRe(b, az(docName)) && !vfInRe(a, az(docIdent)) && !vfInRe(b, az(docIdent)))
	if vfChoice("which", 2) == 0 {
		m := Meta{Imports: map[string]string{a: "-", b: "+"}}
		vfAssert(vfSameErrors(ValidateMetaImports(m), ValidateMetaImports(m)), "meta.imports diagnostics are independent of map iteration order")
	} else {
		m := Meta{Functions: map[string]string{a: "-", b: "+"}}
		vfAssert(vfSameErrors(ValidateMetaFunctions(m), ValidateMetaFunctions(m)), "meta.functions diagnostics are independent of map iteration order")
	}
	vfReach("C08_meta_validators")
}

// VF_C08_validators: the same for parameters, services, fields and tags.
func VF_C08_validators() {
	a, b := vfTwoKeys("name")
	vfAssume(!vfInRe(a, az(docName)) && !vfInRe(b, az(docName)) && !vfInRe(a, az(docIdent)) && !vfInRe(b, az(docIdent)))
	bad := "-"
	switch vfChoice("which", 5) {
	case 0:
		i := Input{Params: map[string]any{a: []any{}, b: []any{}}}
		vfAssert(vfSameErrors(ValidateParams(i), ValidateParams(i)), "parameter diagnostics are independent of map iteration order")
	case 1:
		svc := Service{Constructor: &bad}
		i := Input{Services: map[string]Service{a: svc, b: svc}}
		vfAssert(vfSameErrors(ValidateServices(i), ValidateServices(i)), "service diagnostics are independent of map iteration order")
	case 2:
		svc := Service{Fields: map[string]any{a: []any{}, b: []any{}}}
		vfAssert(vfSameErrors(ValidateServiceFields(svc), ValidateServiceFields(svc)), "field diagnostics are independent of map iteration order")
	case 3:
		svc := Service{Tags: []Tag{{Name: a}, {Name: b}, {Name: b}, {Name: a}}}
		vfAssert(vfSameErrors(ValidateServiceTags(svc), ValidateServiceTags(svc)), "tag diagnostics are independent of map iteration order")
	case 4:
		svc := Service{Constructor: &bad}
		i := Input{Params: map[string]any{a: []any{}, b: []any{}}, Services: map[string]Service{a: svc, b: svc}}
		v := NewDefaultValidator("")
		vfAssert(vfSameErrors(v.Validate(i), v.Validate(i)), "validator diagnostics are independent of map iteration order")
	}
	vfReach("C08_validators")
}

// VF_C08_merge: merging maps gives the same result whatever the order.
func VF_C08_merge() {
	a, b := vfTwoKeys("key")
	x := map[string]string{a: vfString("v"), b: vfString("v")}
	y := map[string]string{a: vfString("v"), b: vfString("v")}
	r1, r2 := mergeMap(x, y), mergeMap(x, y)
	vfAssert(len(r1) == 2 && len(r2) == 2, "merged map has both keys")
	vfAssert(r1[a] == r2[a] && r1[b] == r2[b], "mergeMap is independent of map iteration order")
	vfAssert(r1[a] == y[a] && r1[b] == y[b], "later values win")
	g1, g2 := "G1", "G2"
	sa := map[string]Service{a: {Getter: &g1}, b: {Getter: &g2}}
	sb := map[string]Service{a: {Tags: []Tag{{Name: "t"}}}, b: {Tags: []Tag{{Name: "u"}}}}
	m1, m2 := mergeServices(sa, sb), mergeServices(sa, sb)
	vfAssert(len(m1) == 2 && len(m2) == 2, "merged services have both keys")
	vfAssert(*m1[a].Getter == *m2[a].Getter && m1[a].Tags[0] == m2[a].Tags[0] && *m1[b].Getter == *m2[b].Getter, "mergeServices is independent of map iteration order")
	vfReach("C08_merge")
}

func init() { vfRegister("VF_C08_scope_tables", VF_C08_scope_tables) }

// VF_C08_scope_tables: the keyword tables built in init() by ranging over a
// map are the same under every iteration order.
func VF_C08_scope_tables() {
	vfAssert(len(mapStringScope) == 3 && len(mapScopeString) == 3, "scope tables have three entries")
	vfAssert(mapStringScope["shared"] == ScopeShared && mapStringScope["contextual"] == ScopeContextual && mapStringScope["non_shared"] == ScopeNonShared, "keyword -> scope table is independent of map iteration order")
	vfReach("C08_scope_tables")
}
