package imports

func init() { vfRegister("VF_C12_alias", VF_C12_alias) }

// VF_C12_alias: the alias code is total: with or without an alias table entry,
// for two arbitrary import strings (any characters: the validators upstream
// restrict them, this code must not rely on that) registering, resolving and
// listing never panic, and every local name handed out is returned again.
func VF_C12_alias() {
	im := New()
	ln := vfBound("c12.alias", 4, 6)
	if vfBool("table") {
		_ = im.RegisterPrefixAlias(vfStr("alias", 2), "p")
	}
	r1, r2 := vfStr("r1", ln), vfStr("r2", 3)
	n1 := im.Alias(r1)
	n2 := im.Alias(r2)
	vfAssert(im.Alias(r1) == n1 && im.Alias(r2) == n2, "a name handed out stays")
	vfAssert(len(im.Imports()) >= 1, "used imports are listed")
	vfReach("C12_alias")
}
