package imports

import "strings"

func init() {
	vfRegister("VF_C14_resolve", VF_C14_resolve)
	vfRegister("VF_C14_names", VF_C14_names)
	vfRegister("VF_C14_register", VF_C14_register)
	vfRegister("VF_C14_distinct", VF_C14_distinct)
}

const (
	docAlias = `\A[A-Za-z]([._-]?[A-Za-z0-9])*\z`
	docPath  = `\A[A-Za-z](/?[A-Za-z0-9._-])*\z`
	docLocal = `\A[A-Za-z_][A-Za-z0-9_]*\z`
)

func vfStr(name string, n int) string {
	s := vfString(name)
	vfAssume(vfRuneLen(s) <= n)
	return s
}

// refResolve: DESIGN A.6 — an alias replaces the first path segment iff it
// equals it.
func refResolve(aliases, paths []string, r string) string {
	head := strings.Split(r, "/")[0]
	rest := strings.TrimPrefix(r, head)
	for i, a := range aliases {
		if a == head {
			return paths[i] + rest
		}
	}
	return r
}

func vfTable(n, ln int) (*imports, []string, []string) {
	im := New()
	var as, ps []string
	for i := 0; i < n; i++ {
		a, p := vfStr("alias", ln), vfStr("path", ln)
		vfAssume(vfInRe(a, docAlias) && vfInRe(p, docPath))
		for _, b := range as {
			vfAssume(a != b)
		}
		vfAssert(im.RegisterPrefixAlias(a, p) == nil, "distinct aliases register")
		as, ps = append(as, a), append(ps, p)
	}
	return im, as, ps
}

func vfPathOf(im *imports, local string) (string, int) {
	path, n := "", 0
	for _, i := range im.Imports() {
		if i.Alias == local {
			path = i.Path
			n++
		}
	}
	return path, n
}

// VF_C14_resolve: a reference resolves to exactly the package the alias table
// denotes, whole segments only, whatever the iteration order of the table.
func VF_C14_resolve() {
	im, as, ps := vfTable(vfBound("c14.aliases", 2, 2), vfBound("c14.len", 3, 5))
	r := vfStr("ref", vfBound("c14.len", 3, 5))
	vfAssume(vfInRe(r, docPath))
	want := refResolve(as, ps, r)
	local := im.Alias(r)
	vfObserve("local", local)
	got, n := vfPathOf(im, local)
	vfAssert(n == 1, "the local name denotes one import")
	vfAssert(got == want, "reference resolves to the package denoted by the alias table (whole segments only)")
	vfAssert(vfInRe(local, docLocal), "local name is a Go identifier")
	vfAssert(im.Alias(r) == local, "same reference, same local name")
	vfReach("C14_resolve")
}

// VF_C14_names: equal packages share one local name and one import entry,
// different packages never share a local name.
func VF_C14_names() {
	ln := vfBound("c14.names", 3, 4)
	im, as, ps := vfTable(1, ln)
	r1, r2 := vfStr("r1", ln), vfStr("r2", ln)
	vfAssume(vfInRe(r1, docPath) && vfInRe(r2, docPath))
	w1, w2 := refResolve(as, ps, r1), refResolve(as, ps, r2)
	n1, n2 := im.Alias(r1), im.Alias(r2)
	vfObserve("locals", n1+" "+n2)
	vfAssert((w1 == w2) == (n1 == n2), "equal packages share a local name, different packages never do")
	vfAssert(vfInRe(n1, docLocal) && vfInRe(n2, docLocal), "local names are Go identifiers")
	imps := im.Imports()
	if w1 == w2 {
		vfAssert(len(imps) == 1 && imps[0].Path == w1, "the same package is imported once")
	} else {
		vfAssert(len(imps) == 2, "two packages, two imports")
		if len(imps) == 2 {
			vfAssert((imps[0].Path == w1 && imps[1].Path == w2) || (imps[0].Path == w2 && imps[1].Path == w1), "the import block lists exactly the used packages")
		}
	}
	vfReach("C14_names")
}

// VF_C14_register: an alias can be registered once.
func VF_C14_register() {
	im := New()
	a, b := vfStr("a", 4), vfStr("b", 4)
	vfAssert(im.RegisterPrefixAlias(a, "x/y") == nil, "first registration succeeds")
	err := im.RegisterPrefixAlias(b, "x/z")
	vfAssert((err != nil) == (a == b), "second registration fails iff the alias is taken")
	if err != nil {
		vfAssert(strings.Contains(err.Error(), vfQuote(b)), "diagnostic names the alias")
	}
	vfReach("C14_register")
}

// VF_C14_distinct: without any alias, longer paths (several segments, version
// suffixes, dots and dashes): two references share a local name iff they are
// the same package, and a third use keeps the names handed out before.
func VF_C14_distinct() {
	im := New()
	ln := vfBound("c14.long", 6, 7)
	r1, r2 := vfStr("r1", ln), vfStr("r2", ln)
	vfAssume(vfInRe(r1, docPath) && vfInRe(r2, docPath))
	n1, n2 := im.Alias(r1), im.Alias(r2)
	vfObserve("locals", n1+" "+n2)
	vfAssert((r1 == r2) == (n1 == n2), "equal packages share a local name, different packages never do")
	vfAssert(vfInRe(n1, docLocal) && vfInRe(n2, docLocal), "local names are Go identifiers")
	vfAssert(im.Alias(r1) == n1 && im.Alias(r2) == n2, "a name handed out stays")
	// (the import block itself is VF_C14_names' subject: its sort makes long symbolic paths expensive)
	vfReach("C14_distinct")
}
