package imports

func init() {
	vfRegister("VF_C08_imports", VF_C08_imports)
}

// VF_C08_imports: the alias table answers and lists the same under every
// iteration order of its two maps.
func VF_C08_imports() {
	mk := func(a1, p1, a2, p2 string) *imports {
		im := New()
		_ = im.RegisterPrefixAlias(a1, p1)
		_ = im.RegisterPrefixAlias(a2, p2)
		return im
	}
	if vfChoice("which", 2) == 1 {
		// the import list of a table with three used packages (concrete, so that
		// the only freedom left is the iteration order of the maps)
		mk3 := func() *imports {
			im := New()
			_, _, _ = im.Alias("b/x"), im.Alias("a/y"), im.Alias("c")
			return im
		}
		ix, iy := mk3().Imports(), mk3().Imports()
		vfAssert(len(ix) == 3 && len(iy) == 3, "import list has every used package")
		for i := range ix {
			vfAssert(ix[i] == iy[i], "import list is independent of map iteration order")
		}
		vfAssert(ix[0].Path == "a/y" && ix[1].Path == "b/x" && ix[2].Path == "c", "import list is sorted by path")
		vfReach("C08_imports_list")
		return
	}
	ln := vfBound("c08.len", 3, 4)
	a1, a2 := vfStr("alias", ln), vfStr("alias", ln)
	p1, p2 := vfStr("path", ln), vfStr("path", ln)
	vfAssume(a1 != a2 && vfInRe(a1, docAlias) && vfInRe(a2, docAlias) && vfInRe(p1, docPath) && vfInRe(p2, docPath))
	r := vfStr("ref", ln)
	vfAssume(vfInRe(r, docPath))
	x, y := mk(a1, p1, a2, p2), mk(a1, p1, a2, p2)
	vfAssert(x.Alias(r) == y.Alias(r), "alias lookup is independent of map iteration order")
	vfReach("C08_imports")
}
