package runner

import (
	"strings"

	"github.com/gontainer/gontainer-helpers/v3/grouperror"
	"github.com/gontainer/gontainer/internal/pkg/input"
)

func init() {
	vfRegister("VF_C09_fold", VF_C09_fold)
	vfRegister("VF_C08_read_config", VF_C08_read_config)
}

func vfFileName(name string) string {
	s := vfString(name)
	vfAssume(vfInRe(s, `\A[a-z]{1,2}\z`))
	return s
}

func vfMarker(f string) input.Input {
	return input.Input{Decorators: []input.Decorator{{Tag: f, Decorator: "D"}}}
}

// vfTagMarker: a file without decorators that appends a tag named after
// itself to the service "s".
func vfTagMarker(f string) input.Input {
	return input.Input{Services: map[string]input.Service{"s": {Tags: []input.Tag{{Name: f}}}}}
}

// vfGlobChoice: what Glob returns for one pattern: 0..2 of the three files,
// in any order.
func vfGlobChoice(files []string) []string {
	switch vfChoice("glob.count", 3) {
	case 0:
		return nil
	case 1:
		return []string{files[vfChoice("glob.first", 3)]}
	}
	i, j := vfChoice("glob.first", 3), vfChoice("glob.second", 3)
	vfAssume(i != j)
	return []string{files[i], files[j]}
}

func vfSorted2(fs []string) []string {
	if len(fs) == 2 && fs[1] < fs[0] {
		return []string{fs[1], fs[0]}
	}
	return fs
}

// VF_C09_fold: files are merged in the order of the -i patterns and, within
// one pattern, in lexical order of the paths, whatever order Glob returns.
func VF_C09_fold() {
	f := []string{vfFileName("f0"), vfFileName("f1"), vfFileName("f2")}
	vfAssume(f[0] != f[1] && f[0] != f[2] && f[1] != f[2])
	VfEnv = VfEnvT{Patterns: []string{"P0", "P1"}, GlobErr: []bool{false, false}, ReadErr: map[string]bool{}, YamlErr: map[string]bool{}, Inputs: map[string]input.Input{}}
	// every file leaves a marker named after itself in an appended list:
	// a decorator, or (a file without a decorators key) a tag on service "s"
	byTag := map[string]bool{}
	// the last file may hold no YAML document at all (empty or comments only):
	// it is read like any other file and contributes nothing
	VfEnv.Empty = map[string]bool{}
	empty2 := vfBool("emptyfile")
	for i, n := range f {
		if i == 2 && empty2 {
			VfEnv.Inputs[n] = input.Input{}
			VfEnv.Empty[n] = true
		} else if i == 1 && vfBool("tagfile") {
			VfEnv.Inputs[n] = vfTagMarker(n)
			byTag[n] = true
		} else {
			VfEnv.Inputs[n] = vfMarker(n)
		}
	}
	VfEnv.GlobFiles = [][]string{vfGlobChoice(f), vfGlobChoice(f)}
	var want, wantTags []string
	matched := 0
	for _, g := range VfEnv.GlobFiles {
		for _, n := range vfSorted2(g) {
			matched++
			if VfEnv.Empty[n] {
				continue
			}
			if byTag[n] {
				wantTags = append(wantTags, n)
			} else {
				want = append(want, n)
			}
		}
	}
	var in input.Input
	err := NewStepReadConfig(&VfPrinter{}, VfEnv.Patterns).Run(&in, nil)
	got := make([]string, 0)
	for _, d := range in.Decorators {
		got = append(got, d.Tag)
	}
	gotTags := make([]string, 0)
	for _, t := range in.Services["s"].Tags {
		gotTags = append(gotTags, t.Name)
	}
	vfObserve("order", strings.Join(got, ",")+"|"+strings.Join(gotTags, ","))
	vfAssert(len(got) == len(want) && len(gotTags) == len(wantTags), "every matched file is merged once per match")
	if len(got) == len(want) {
		for i := range got {
			vfAssert(got[i] == want[i], "files are merged in pattern order, then lexical path order")
		}
	}
	if len(gotTags) == len(wantTags) {
		for i := range gotTags {
			vfAssert(gotTags[i] == wantTags[i], "files are merged in pattern order, then lexical path order (tags)")
		}
	}
	dup := false
	for _, a := range VfEnv.GlobFiles[0] {
		for _, b := range VfEnv.GlobFiles[1] {
			dup = vfOr(dup, a == b)
		}
	}
	vfAssert((err != nil) == vfOr(dup, matched == 0), "rejected iff no file was processed or a file matched two patterns")
	vfReach("C09_fold")
}

// VF_C08_read_config: the diagnostics of the read step do not depend on the
// iteration order of its bookkeeping map (two files, both matched twice).
func VF_C08_read_config() {
	f0, f1 := vfFileName("f0"), vfFileName("f1")
	vfAssume(f0 != f1)
	mk := func() error {
		VfEnv = VfEnvT{Patterns: []string{"P0", "P1"}, GlobErr: []bool{false, false}, ReadErr: map[string]bool{}, YamlErr: map[string]bool{},
			Inputs: map[string]input.Input{f0: vfMarker(f0), f1: vfMarker(f1)}, GlobFiles: [][]string{{f0, f1}, {f1, f0}}}
		var in input.Input
		return NewStepReadConfig(&VfPrinter{}, VfEnv.Patterns).Run(&in, nil)
	}
	e1, e2 := mk(), mk()
	a, b := grouperror.Collection(e1), grouperror.Collection(e2)
	vfAssert(len(a) == 2 && len(b) == 2, "both doubly-matched files are reported")
	if len(a) == len(b) {
		for i := range a {
			vfAssert(a[i].Error() == b[i].Error(), "read-step diagnostics are independent of map iteration order")
		}
	}
	vfReach("C08_read_config")
}
