package runner

import (
	"errors"
	"io"
	"os"

	"github.com/gontainer/gontainer/internal/pkg/input"
)

// Virtual environment of the runner steps (DESIGN 3.9). The harness fills
// VfEnv; the vfStub_* functions below stand in for filepath.Glob,
// filepath.Clean, os.ReadFile, os.WriteFile and yaml.Unmarshal — under the
// engine by name, natively through a rewritten copy of the package sources.
type VfEnvT struct {
	Patterns  []string
	GlobErr   []bool     // per pattern
	GlobFiles [][]string // per pattern, in the order Glob returns them
	ReadErr   map[string]bool
	YamlErr   map[string]bool
	Inputs    map[string]input.Input // what each file parses to
	WriteErr  bool
	Writes    []string // contents handed to os.WriteFile, in order
	WritePath []string
	Log       []string // environment calls in order
	Touched   []string // paths created, truncated, removed or renamed by anything but a successful WriteFile
	Cwd       string   // the working directory of the virtual environment
	Empty     map[string]bool // files that hold no YAML document at all (empty or comments only)
	Opened    []VfOpenFile    // handles given out by os.Open, with the file each stands for
}

type VfOpenFile struct {
	F    *os.File
	Name string
}

var VfEnv VfEnvT

func vfStub_filepath_Glob(pattern string) ([]string, error) {
	VfEnv.Log = append(VfEnv.Log, "glob:"+pattern)
	for i, p := range VfEnv.Patterns {
		if p == pattern {
			if VfEnv.GlobErr[i] {
				return nil, errors.New("syntax error in pattern")
			}
			return append([]string(nil), VfEnv.GlobFiles[i]...), nil
		}
	}
	return nil, nil
}

// filepath.Clean on the spellings the scenarios use: leading "./" elements
// are dropped. Files are identified by their clean name.
func vfStub_filepath_Clean(p string) string { return VfCanon(p) }

// The working directory is only visible through these two.
func vfStub_filepath_Abs(p string) (string, error) {
	if len(p) > 0 && p[0] == '/' {
		return p, nil
	}
	return VfEnv.Cwd + "/" + VfCanon(p), nil
}

func vfStub_os_Getwd() (string, error) { return VfEnv.Cwd, nil }

func VfCanon(p string) string {
	for len(p) > 2 && p[0] == '.' && p[1] == '/' {
		p = p[2:]
	}
	return p
}

func vfStub_os_ReadFile(name string) ([]byte, error) {
	VfEnv.Log = append(VfEnv.Log, "read:"+name)
	name = VfCanon(name)
	if VfEnv.ReadErr[name] {
		return nil, errors.New("open " + name + ": permission denied")
	}
	return []byte(name), nil
}

// yaml.Unmarshal decodes INTO its target, as yaml.v3 documents: a key the
// file has sets the field (a mapping is merged key by key into an existing
// map, whose elements are replaced whole; a sequence replaces the slice), a
// key the file does not have leaves the field as it was. With a fresh target
// per file, as the read step uses it, that is plain assignment.
func vfStub_yaml_Unmarshal(in []byte, out interface{}) error {
	name := string(in)
	if VfEnv.YamlErr[name] {
		return errors.New("yaml: line 1: did not find expected key")
	}
	if VfEnv.Empty[name] {
		return nil // no document: nothing is decoded, no error
	}
	src := VfEnv.Inputs[name]
	dst := out.(*input.Input)
	if src.Version != nil {
		dst.Version = src.Version
	}
	if src.Meta.Pkg != nil {
		dst.Meta.Pkg = src.Meta.Pkg
	}
	if src.Meta.ContainerType != nil {
		dst.Meta.ContainerType = src.Meta.ContainerType
	}
	if src.Meta.ContainerConstructor != nil {
		dst.Meta.ContainerConstructor = src.Meta.ContainerConstructor
	}
	if src.Meta.DefaultMustGetter != nil {
		dst.Meta.DefaultMustGetter = src.Meta.DefaultMustGetter
	}
	if src.Meta.Imports != nil {
		if dst.Meta.Imports == nil {
			dst.Meta.Imports = map[string]string{}
		}
		for k, v := range src.Meta.Imports {
			dst.Meta.Imports[k] = v
		}
	}
	if src.Meta.Functions != nil {
		if dst.Meta.Functions == nil {
			dst.Meta.Functions = map[string]string{}
		}
		for k, v := range src.Meta.Functions {
			dst.Meta.Functions[k] = v
		}
	}
	if src.Params != nil {
		if dst.Params == nil {
			dst.Params = map[string]any{}
		}
		for k, v := range src.Params {
			dst.Params[k] = v
		}
	}
	if src.Services != nil {
		if dst.Services == nil {
			dst.Services = map[string]input.Service{}
		}
		for k, v := range src.Services {
			dst.Services[k] = v
		}
	}
	if src.Decorators != nil {
		dst.Decorators = append([]input.Decorator(nil), src.Decorators...)
	}
	return nil
}

// os.Open + yaml.NewDecoder(f).Decode: the streaming way of reading the same
// file. Decode returns io.EOF when the stream holds no (further) document,
// which is where it differs from Unmarshal.
func vfStub_os_Open(name string) (*os.File, error) {
	VfEnv.Log = append(VfEnv.Log, "read:"+name)
	name = VfCanon(name)
	if VfEnv.ReadErr[name] {
		return nil, errors.New("open " + name + ": permission denied")
	}
	f := vfScratchFile()
	VfEnv.Opened = append(VfEnv.Opened, VfOpenFile{F: f, Name: name})
	return f, nil
}

type VfDecoder struct {
	name string
	done bool
}

func vfStub_yaml_NewDecoder(r io.Reader) *VfDecoder {
	d := &VfDecoder{done: true}
	if f, ok := r.(*os.File); ok {
		for _, o := range VfEnv.Opened {
			if o.F == f {
				d.name, d.done = o.Name, false
			}
		}
	}
	return d
}

func (d *VfDecoder) Decode(out interface{}) error { return vfStubM_yaml_Decoder_Decode(d, out) }
func (d *VfDecoder) KnownFields(bool)             {}

// vfStubM_<pkg>_<Type>_<Method>: what the engine runs for a method of a
// package it does not execute (the receiver is what the constructor stub made).
func vfStubM_yaml_Decoder_Decode(d *VfDecoder, out interface{}) error {
	if d.done || VfEnv.Empty[d.name] {
		return io.EOF
	}
	d.done = true
	return vfStub_yaml_Unmarshal([]byte(d.name), out)
}

func vfStubM_yaml_Decoder_KnownFields(d *VfDecoder, on bool) {}

func vfStub_os_WriteFile(name string, data []byte, perm uint32) error {
	VfEnv.Log = append(VfEnv.Log, "write:"+name)
	if VfEnv.WriteErr {
		return errors.New("open " + name + ": permission denied")
	}
	VfEnv.Writes = append(VfEnv.Writes, string(data))
	VfEnv.WritePath = append(VfEnv.WritePath, name)
	return nil
}

// Other ways of touching the file system: logged, and counted as a change of
// the named path.
func vfStub_os_OpenFile(name string, flag int, perm os.FileMode) (*os.File, error) {
	VfEnv.Log = append(VfEnv.Log, "open:"+name)
	if VfEnv.WriteErr {
		return nil, errors.New("open " + name + ": permission denied")
	}
	if flag&(os.O_CREATE|os.O_TRUNC|os.O_WRONLY|os.O_RDWR|os.O_APPEND) != 0 {
		VfEnv.Touched = append(VfEnv.Touched, name)
	}
	return vfScratchFile(), nil
}

func vfStub_os_Create(name string) (*os.File, error) {
	return vfStub_os_OpenFile(name, os.O_RDWR|os.O_CREATE|os.O_TRUNC, 0666)
}

func vfStub_os_Remove(name string) error {
	VfEnv.Log = append(VfEnv.Log, "remove:"+name)
	VfEnv.Touched = append(VfEnv.Touched, name)
	return nil
}

func vfStub_os_Rename(from, to string) error {
	VfEnv.Log = append(VfEnv.Log, "rename:"+from+":"+to)
	VfEnv.Touched = append(VfEnv.Touched, from, to)
	return nil
}

func vfStub_os_Truncate(name string, size int64) error {
	VfEnv.Log = append(VfEnv.Log, "truncate:"+name)
	VfEnv.Touched = append(VfEnv.Touched, name)
	return nil
}

// VfPrinter records what the steps print.
type VfPrinter struct{ Lines []string }

func (p *VfPrinter) Println(s string) { p.Lines = append(p.Lines, s) }
func (p *VfPrinter) PrintAlignedLn(left string, extra ...string) {
	s := left
	for _, e := range extra {
		s += "|" + e
	}
	p.Lines = append(p.Lines, s)
}
func (p *VfPrinter) Indent(string) {}
func (p *VfPrinter) EndIndent()    {}
