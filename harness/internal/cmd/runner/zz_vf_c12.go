package runner

import (
	"errors"

	"github.com/gontainer/gontainer/internal/pkg/input"
	"github.com/gontainer/gontainer/internal/pkg/output"
)

func init() {
	vfRegister("VF_C12_patterns", VF_C12_patterns)
	vfRegister("VF_C12_printer", VF_C12_printer)
}

// vfShort: an ASCII string of 0..n characters, character by character (byte
// operations on it are exact).
func vfShort(name string, n int) string {
	return vfASCIIString(name, vfChoice(name+".len", n+1))
}

type vfStepT struct {
	name string
	err  error
}

func (s vfStepT) Name() string                             { return s.name }
func (s vfStepT) Run(*input.Input, *output.Output) error { return s.err }

type vfWriter struct{ out string }

func (w *vfWriter) Write(b []byte) (int, error) {
	w.out += string(b)
	return len(b), nil
}

// VF_C12_printer: the aligned printer never asks for a negative repeat count
// for any of the shipped step names at any nesting depth the runner produces,
// with and without errors, active or ignored.
func VF_C12_printer() {
	names := []string{"Default input", "Read config", "Compile", "Validate output", "Scope", "Circular dependencies", "Missing parameters", "Missing services", "Generate code"}
	n := names[vfChoice("step", len(names))]
	w := &vfWriter{}
	p := NewPrinter(w)
	depth := vfChoice("depth", 3)
	for i := 0; i < depth; i++ {
		p.Indent("  ")
	}
	var err error
	if vfBool("fails") {
		err = errors.New("boom")
	}
	st := NewStepVerboseSwitchable(vfStepT{name: n, err: err}, p, p)
	st.Active(vfBool("active"))
	got := st.Run(&input.Input{}, &output.Output{})
	vfAssert(len(p.indents) == depth, "indentation is restored after the step")
	if st.active {
		vfAssert((got != nil) == (err != nil), "the verbose wrapper does not change the verdict")
	} else {
		vfAssert(got == nil, "an ignored step reports nothing")
	}
	vfObserve("out", w.out)
	vfReach("C12_printer")
}

// VF_C12_patterns: the read step is total in its patterns: arbitrary short ASCII
// strings (the empty one included; cobra only requires the flag to be present) never
// make it panic; it ends with a result or an error.
func VF_C12_patterns() {
	p0, p1 := vfShort("p0", 2), vfShort("p1", 1)
	VfEnv = VfEnvT{Patterns: []string{"known"}, GlobErr: []bool{false}, GlobFiles: [][]string{{"a.yaml"}}, ReadErr: map[string]bool{}, YamlErr: map[string]bool{},
		Inputs: map[string]input.Input{"a.yaml": {}}}
	var in input.Input
	err := NewStepReadConfig(&VfPrinter{}, []string{p0, p1}).Run(&in, nil)
	if p0 != "known" && p1 != "known" {
		vfAssert(err != nil, "patterns that match nothing fail the step")
	}
	vfReach("C12_patterns")
}
