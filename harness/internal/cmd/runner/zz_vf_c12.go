package runner

import (
	"errors"

	"github.com/gontainer/gontainer/internal/pkg/input"
	"github.com/gontainer/gontainer/internal/pkg/output"
)

func init() { vfRegister("VF_C12_printer", VF_C12_printer) }

type vfStepT struct {
	name string
	err  error
}

func (s vfStepT) Name() string                             { return s.name }
func (s vfStepT) Run(*input.Input, *output.Output) error { return s.err }

type vfWriter struct{ out string }

func (w *vfWriter) Write(b []byte) (int, error) {
	w.out += string(b)
	return len(b), nil
}

// VF_C12_printer: the aligned printer never asks for a negative repeat count
// for any of the shipped step names at any nesting depth the runner produces,
// with and without errors, active or ignored.
func VF_C12_printer() {
	names := []string{"Default input", "Read config", "Compile", "Validate output", "Scope", "Circular dependencies", "Missing parameters", "Missing services", "Generate code"}
	n := names[vfChoice("step", len(names))]
	w := &vfWriter{}
	p := NewPrinter(w)
	depth := vfChoice("depth", 3)
	for i := 0; i < depth; i++ {
		p.Indent("  ")
	}
	var err error
	if vfBool("fails") {
		err = errors.New("boom")
	}
	st := NewStepVerboseSwitchable(vfStepT{name: n, err: err}, p, p)
	st.Active(vfBool("active"))
	got := st.Run(&input.Input{}, &output.Output{})
	vfAssert(len(p.indents) == depth, "indentation is restored after the step")
	if st.active {
		vfAssert((got != nil) == (err != nil), "the verbose wrapper does not change the verdict")
	} else {
		vfAssert(got == nil, "an ignored step reports nothing")
	}
	vfObserve("out", w.out)
	vfReach("C12_printer")
}
