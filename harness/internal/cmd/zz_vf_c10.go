package cmd

import (
	"fmt"
	"strings"

	"github.com/gontainer/gontainer-helpers/v3/grouperror"
	"github.com/gontainer/gontainer/internal/cmd/runner"
	"github.com/gontainer/gontainer/internal/pkg/input"
	"github.com/gontainer/gontainer/internal/pkg/template"
)

func init() {
	vfRegister("VF_C10_smoke", VF_C10_smoke)
	vfRegister("VF_C10_contract", VF_C10_contract)
	vfRegister("VF_C10_quiet", VF_C10_quiet)
	vfRegister("VF_C16_flags", VF_C16_flags)
	vfRegister("VF_C17_decision", VF_C17_decision)
	vfRegister("VF_C08_cwd", VF_C08_cwd)
	vfRegister("VF_C03_shipped_params", VF_C03_shipped_params)
}

const vfMenuSize = 21

type vfOut struct{ text string }

func (w *vfOut) Write(b []byte) (int, error) {
	w.text += string(b)
	return len(b), nil
}

func vfSvc(ctor string, args ...any) input.Service {
	return input.Service{Constructor: &ctor, Args: args}
}

// vfMenu: configurations with one defect class each (and one with two).
//
//	0 valid, 1 grammar defect, 2 missing parameter, 3 missing service,
//	4 dependency cycle, 5 shared-on-contextual, 6 missing parameter + service,
//	7 cycle + missing service + missing parameter, 8 scope + missing references in a decorator,
//	9/10 shared service with a missing service / parameter, 11/12 cycle / scope defect behind
//	a missing service in the same list, 13 parameter cycle + missing parameter,
//	14/15 a value service whose field / call has a missing service / parameter,
//	16 valid with parameters only, 17 valid and empty, 18 valid with a todo service sorted
//	first, 19 valid with parameter strings that look like argument notations, 20 a decorator
//	on an unused tag with a missing parameter
func vfMenu(k int) input.Input {
	shared, contextual := input.ScopeShared, input.ScopeContextual
	switch k {
	case 1:
		return input.Input{Services: map[string]input.Service{"-bad": vfSvc("NewX")}}
	case 2:
		return input.Input{Services: map[string]input.Service{"svc": vfSvc("NewX", "%nope%")}}
	case 3:
		return input.Input{Services: map[string]input.Service{"svc": vfSvc("NewX", "@nope")}}
	case 4:
		return input.Input{Services: map[string]input.Service{"svc": vfSvc("NewX", "@svc")}}
	case 5:
		a, b := vfSvc("NewA", "@b"), vfSvc("NewB")
		a.Scope, b.Scope = &shared, &contextual
		return input.Input{Services: map[string]input.Service{"a": a, "b": b}}
	case 6:
		return input.Input{Services: map[string]input.Service{"svc": vfSvc("NewX", "%nope%", "@nope")}}
	case 9: // a service declared shared that refers to a missing service (no other defect)
		a := vfSvc("NewA", "@nope")
		a.Scope = &shared
		return input.Input{Services: map[string]input.Service{"a": a}}
	case 10: // a service declared shared that refers to a missing parameter (no other defect)
		a := vfSvc("NewA", "%nope%")
		a.Scope = &shared
		return input.Input{Services: map[string]input.Service{"a": a}}
	case 11: // a cycle whose closing reference comes after a missing service in the same argument list
		return input.Input{Services: map[string]input.Service{"a": vfSvc("NewA", "@nope", "@b"), "b": vfSvc("NewB", "@a")}}
	case 12: // shared-on-contextual reached through a reference that comes after a missing service
		a, b := vfSvc("NewA", "@nope", "@b"), vfSvc("NewB")
		a.Scope, b.Scope = &shared, &contextual
		return input.Input{Services: map[string]input.Service{"a": a, "b": b}}
	case 13: // a parameter cycle next to a missing parameter
		return input.Input{Params: map[string]any{"p": "%q%", "q": "%p%", "r": "%nope%"}, Services: map[string]input.Service{"svc": vfSvc("NewX")}}
	case 14: // a service created by a value whose field refers to a missing service
		v := "&X{}"
		return input.Input{Services: map[string]input.Service{"svc": {Value: &v, Fields: map[string]any{"F": "@nope"}}}}
	case 15: // a service created by a value whose call refers to a missing parameter
		v := "&X{}"
		return input.Input{Services: map[string]input.Service{"svc": {Value: &v, Calls: []input.Call{{Method: "M", Args: []any{"%nope%"}}}}}}
	case 16: // valid: parameters only, no service and no decorator
		return input.Input{Params: map[string]any{"p": 1, "q": "%p%"}}
	case 17: // valid: nothing at all
		return input.Input{}
	case 18: // valid: a todo service whose name sorts before the services that use it
		yes := true
		return input.Input{Services: map[string]input.Service{"a": {Todo: &yes}, "b": vfSvc("NewB", "@a"), "c": vfSvc("NewC", "@b")}}
	case 20: // a decorator on a tag no service carries, with a missing parameter
		return input.Input{Services: map[string]input.Service{"svc": vfSvc("NewX")}, Decorators: []input.Decorator{{Tag: "unused", Decorator: "D", Args: []any{"%nope%"}}}}
	case 19: // valid: parameter strings that look like argument notations are plain strings
		return input.Input{Params: map[string]any{"h": "@handle", "t": "!tagged x", "v": "!value V", "g": "$gontainer"}, Services: map[string]input.Service{"svc": vfSvc("NewX", "%h%")}}
	case 7: // a cycle together with a missing service and a missing parameter
		return input.Input{Services: map[string]input.Service{"a": vfSvc("NewA", "@b", "@nope"), "b": vfSvc("NewB", "@a", "%nope%")}}
	case 8: // shared-on-contextual together with a missing service in a decorator
		a, b := vfSvc("NewA", "@b"), vfSvc("NewB")
		a.Scope, b.Scope = &shared, &contextual
		a.Tags = []input.Tag{{Name: "t"}}
		return input.Input{Services: map[string]input.Service{"a": a, "b": b}, Decorators: []input.Decorator{{Tag: "t", Decorator: "D", Args: []any{"@nope", "%nope%"}}}}
	}
	return input.Input{Services: map[string]input.Service{"svc": vfSvc("NewX")}, Params: map[string]any{"p": 1}}
}

// vfMenuClasses: the defect classes configuration k has, by construction:
// grammar, missing parameter, missing service, cycle, scope.
func vfMenuClasses(k int) (grammar, mparam, msvc, cycle, scope bool) {
	switch k {
	case 1:
		grammar = true
	case 2, 10, 15, 20:
		mparam = true
	case 3, 9, 14:
		msvc = true
	case 4:
		cycle = true
	case 5:
		scope = true
	case 6:
		mparam, msvc = true, true
	case 7:
		mparam, msvc, cycle = true, true, true
	case 8:
		mparam, msvc, scope = true, true, true
	case 11:
		msvc, cycle = true, true
	case 12:
		msvc, scope = true, true
	case 13:
		mparam, cycle = true, true
	}
	return
}

func vfHasClass(err error, prefix string) bool {
	for _, e := range grouperror.Collection(err) {
		if strings.HasPrefix(e.Error(), prefix) {
			return true
		}
	}
	return false
}

type vfScenario struct {
	patterns  []string
	globErr   []bool
	globFiles [][]string
	readErr   map[string]bool
	yamlErr   map[string]bool
	inputs    map[string]input.Input
	empty     map[string]bool // files without any YAML document
	formatErr bool
	importErr bool
	writeErr  bool
	menu      int
}

// vfCwd is the working directory of the next vfRunBuild.
var vfCwd = "/work"

type vfRunResult struct {
	err    error
	stdout string
	writes []string
	log     []string
	fmtLog  []string
	touched []string
}

// vfRunBuild runs the real `build` command (RunE) in the virtual environment.
func vfRunBuild(sc vfScenario, quiet, stub, ignoreParams, ignoreServices bool) vfRunResult {
	runner.VfEnv = runner.VfEnvT{Patterns: sc.patterns, GlobErr: sc.globErr, GlobFiles: sc.globFiles,
		ReadErr: sc.readErr, YamlErr: sc.yamlErr, Inputs: sc.inputs, WriteErr: sc.writeErr, Cwd: vfCwd, Empty: sc.empty}
	template.VfFmtEnv = template.VfFmtEnvT{FormatErr: sc.formatErr, ImportsErr: sc.importErr}
	out := &vfOut{}
	cmd := NewBuildCmd("", "dev")
	cmd.SetOut(out)
	// the flags go through cobra's own ParseFlags, as Execute does before RunE:
	// whatever flag parsing prints (deprecation notices) reaches the SetOut writer
	var args []string
	for _, p := range sc.patterns {
		args = append(args, "--input", p)
	}
	args = append(args, "--output", "out.go")
	if quiet {
		args = append(args, "--quiet")
	}
	if stub {
		args = append(args, "--stub")
	}
	if ignoreParams {
		args = append(args, "--ignore-missing-params")
	}
	if ignoreServices {
		args = append(args, "--ignore-missing-services")
	}
	if perr := cmd.ParseFlags(args); perr != nil {
		return vfRunResult{err: perr, stdout: out.text}
	}
	err := cmd.RunE(cmd, nil)
	return vfRunResult{err: err, stdout: out.text, writes: runner.VfEnv.Writes, log: runner.VfEnv.Log, fmtLog: template.VfFmtEnv.Calls, touched: runner.VfEnv.Touched}
}

// vfScenarioChoice draws an environment: 1-2 patterns over two files (one of them possibly spelled in two ways), each
// kind of fault switched by a symbolic bit, and a configuration from the menu.
func vfScenarioChoice() vfScenario {
	sc := vfScenario{readErr: map[string]bool{}, yamlErr: map[string]bool{}, inputs: map[string]input.Input{}}
	sc.menu = vfChoice("menu", vfMenuSize)
	sc.inputs["a.yaml"] = vfMenu(sc.menu)
	sc.inputs["b.yaml"] = input.Input{Params: map[string]any{"q": "x"}}
	switch vfChoice("layout", 6) {
	case 5: // one file spelled in two ways under two patterns
		sc.patterns, sc.globFiles = []string{"P0", "P1"}, [][]string{{"./a.yaml"}, {"a.yaml"}}
	case 0: // one pattern, one file
		sc.patterns, sc.globFiles = []string{"P0"}, [][]string{{"a.yaml"}}
	case 1: // one pattern, no file
		sc.patterns, sc.globFiles = []string{"P0"}, [][]string{nil}
	case 2: // two patterns, two files
		sc.patterns, sc.globFiles = []string{"P0", "P1"}, [][]string{{"a.yaml"}, {"b.yaml"}}
	case 3: // the same file under two patterns
		sc.patterns, sc.globFiles = []string{"P0", "P1"}, [][]string{{"a.yaml"}, {"a.yaml", "b.yaml"}}
	case 4: // one pattern, two files
		sc.patterns, sc.globFiles = []string{"P0"}, [][]string{{"b.yaml", "a.yaml"}}
	}
	sc.globErr = make([]bool, len(sc.patterns))
	sc.globErr[0] = vfBool("globErr")
	sc.readErr["a.yaml"] = vfBool("readErr")
	sc.yamlErr["a.yaml"] = vfBool("yamlErr")
	if vfBound("c10.full", 0, 1) == 1 {
		// thorough: the second pattern and the second file can fail as well
		if len(sc.patterns) > 1 {
			sc.globErr[1] = vfBool("globErr1")
		}
		sc.readErr["b.yaml"] = vfBool("readErrB")
		sc.yamlErr["b.yaml"] = vfBool("yamlErrB")
		// and the second file may hold no YAML document at all: it is read, adds nothing, and is no failure
		if vfBool("emptyB") {
			sc.empty = map[string]bool{"b.yaml": true}
			sc.inputs["b.yaml"] = input.Input{}
		}
	}
	sc.formatErr = vfBool("formatErr")
	sc.importErr = vfBool("importsErr")
	sc.writeErr = vfBool("writeErr")
	return sc
}

func VF_C10_smoke() {
	sc := vfScenario{patterns: []string{"P0"}, globErr: []bool{false}, globFiles: [][]string{{"a.yaml"}},
		readErr: map[string]bool{}, yamlErr: map[string]bool{}, inputs: map[string]input.Input{"a.yaml": vfMenu(0)}}
	r := vfRunBuild(sc, false, false, false, false)
	vfObserve("stdout", r.stdout)
	vfObserve("envlog", strings.Join(r.log, ";"))
	vfAssert(r.err == nil, "a valid configuration builds")
	vfAssert(len(r.writes) == 1, "the output is written exactly once")
	vfReach("C10_smoke")
}

// VF_C10_contract: exit status, diagnostics and the output-file contract
// (DESIGN A.10) over the fault schedule.
func VF_C10_contract() {
	sc := vfScenarioChoice()
	stub := vfBool("stub")
	r := vfRunBuild(sc, false, stub, false, false)
	vfObserve("envlog", strings.Join(r.log, ";"))

	wrote := 0
	for _, l := range r.log {
		if strings.HasPrefix(l, "write:") {
			wrote++
		}
	}
	if r.err == nil {
		vfAssert(wrote == 1 && len(r.writes) == 1, "success: the output was written exactly once, successfully")
		vfAssert(len(r.touched) == 0, "success: nothing else is created, truncated, removed or renamed")
		vfAssert(len(r.log) > 0 && r.log[len(r.log)-1] == "write:out.go", "success: the write is the last effect, to the -o path")
		vfAssert(len(r.writes) == 1 && r.writes[0] != "", "success: the complete generated source was written")
		vfAssert(!strings.Contains(r.stdout, "Errors:"), "success: no error list is printed")
		vfAssert(len(r.fmtLog) == 2 && r.fmtLog[0] == "format" && r.fmtLog[1] == "imports", "success: the text went through gofmt and goimports before being written")
		if len(r.writes) == 1 && !stub {
			for name := range sc.inputs["a.yaml"].Services {
				if aMatchedOnce(sc) {
					vfAssert(strings.Count(r.writes[0], "c.OverrideService("+vfQuote(name)+", s)") == 1, "success: every declared service is registered exactly once")
				}
			}
			for name := range sc.inputs["a.yaml"].Params {
				if aMatchedOnce(sc) {
					vfAssert(strings.Count(r.writes[0], "c.OverrideParam("+vfQuote(name)+", ") == 1, "success: every declared parameter is registered exactly once")
				}
			}
		}
	} else {
		vfAssert(len(r.writes) == 0 && len(r.touched) == 0, "failure: the -o path is left exactly as it was")
		vfAssert(wrote == 0 || sc.writeErr, "failure: nothing is written unless the write itself is what failed")
		errs := grouperror.Collection(r.err)
		n := len(errs)
		vfAssert(strings.Contains(r.stdout, "Errors:"), "failure: an error list is printed")
		vfAssert(strings.Contains(r.stdout, fmt.Sprintf("\n%d. ", n)) && !strings.Contains(r.stdout, fmt.Sprintf("\n%d. ", n+1)), "failure: the numbered list has one line per error")
		for i, e := range errs {
			vfAssert(strings.Contains(r.stdout, fmt.Sprintf("\n%d. %s\n", i+1, e.Error())), "failure: every error is printed under its number")
		}
		if n == 1 {
			vfAssert(strings.Contains(r.stdout, " (1 error)\n"), "failure: the failing step reports the same count (1)")
		} else {
			vfAssert(strings.Contains(r.stdout, fmt.Sprintf(" (%d errors)\n", n)), "failure: the failing step reports the same count")
		}
	}
	// which scenarios must fail
	aMatched := false
	matches := 0
	dup := false
	seen := map[string]bool{}
	for pi, fs := range sc.globFiles {
		if sc.globErr[pi] {
			continue
		}
		for _, f := range fs {
			f = runner.VfCanon(f)
			matches++
			if f == "a.yaml" {
				aMatched = true
			}
			if seen[f] && !(sc.readErr[f] || sc.yamlErr[f]) {
				dup = true
			}
			seen[f] = true
		}
	}
	envFault := matches == 0 || dup
	for pi := range sc.patterns {
		envFault = envFault || sc.globErr[pi]
	}
	for f := range seen {
		envFault = envFault || sc.readErr[f] || sc.yamlErr[f]
	}
	if envFault {
		vfAssert(r.err != nil, "an unreadable, unparsable, doubly matched or missing input fails the build")
		vfAssert(!strings.Contains(r.stdout, "Compile······"), "a failing read step stops the run before compilation")
	}
	if !envFault && (sc.formatErr || sc.importErr || sc.writeErr) {
		vfAssert(r.err != nil, "a formatting or write failure fails the build")
	}
	valid := sc.menu == 0 || (sc.menu >= 16 && sc.menu <= 19)
	if !envFault && aMatched && !valid {
		vfAssert(r.err != nil, "a configuration with a grammar, reference, cycle or scope defect is rejected")
		vfAssert(!strings.Contains(r.stdout, "Generate code"), "a rejected configuration never reaches code generation")
	}
	if !envFault && valid && !sc.formatErr && !sc.importErr && !sc.writeErr {
		vfAssert(r.err == nil, "a valid configuration in a healthy environment is built")
	}
	vfReach("C10_contract")
}

// VF_C10_quiet: with --quiet nothing is printed while verdict and file
// effects are unchanged.
func VF_C10_quiet() {
	sc := vfScenarioChoice()
	// every combination of the remaining flags
	stub, ip, is := vfBool("stub"), vfBool("ignoreParams"), vfBool("ignoreServices")
	loud := vfRunBuild(sc, false, stub, ip, is)
	quiet := vfRunBuild(sc, true, stub, ip, is)
	vfAssert(quiet.stdout == "", "--quiet prints nothing")
	vfAssert((quiet.err == nil) == (loud.err == nil), "--quiet does not change the exit status")
	vfAssert(len(quiet.writes) == len(loud.writes) && len(quiet.touched) == len(loud.touched), "--quiet does not change the file effect")
	if len(quiet.writes) == 1 && len(loud.writes) == 1 {
		vfAssert(quiet.writes[0] == loud.writes[0], "--quiet does not change the generated text")
	}
	vfAssert(len(grouperror.Collection(quiet.err)) == len(grouperror.Collection(loud.err)), "--quiet does not change the diagnostics")
	vfReach("C10_quiet")
}

// VF_C16_flags: an ignore flag removes exactly the diagnostics of its class.
func VF_C16_flags() {
	menu := vfChoice("menu", vfMenuSize)
	sc := vfScenario{patterns: []string{"P0"}, globErr: []bool{false}, globFiles: [][]string{{"a.yaml"}},
		readErr: map[string]bool{}, yamlErr: map[string]bool{}, inputs: map[string]input.Input{"a.yaml": vfMenu(menu)}}
	ip, is := vfBool("ignoreParams"), vfBool("ignoreServices")
	base := vfRunBuild(sc, false, false, false, false)
	got := vfRunBuild(sc, false, false, ip, is)
	var want []string
	for _, e := range grouperror.Collection(base.err) {
		msg := e.Error()
		if ip && strings.HasPrefix(msg, "output.ValidateParamsExist: ") {
			continue
		}
		if is && strings.HasPrefix(msg, "output.ValidateServicesExist: ") {
			continue
		}
		want = append(want, msg)
	}
	gotErrs := grouperror.Collection(got.err)
	vfAssert(len(gotErrs) == len(want), "an ignore flag removes exactly the diagnostics of its class")
	if len(gotErrs) == len(want) {
		for i := range want {
			vfAssert(gotErrs[i].Error() == want[i], "every other diagnostic is reported unchanged, in the same order")
		}
	}
	vfAssert((got.err == nil) == (len(want) == 0), "accepted iff all remaining violations belong to an ignored class")
	// against what the configuration is known to contain (not only against the flag-less run)
	grammar, mparam, msvc, cycle, scope := vfMenuClasses(menu)
	remaining := grammar || cycle || scope || (mparam && !ip) || (msvc && !is)
	vfAssert((got.err != nil) == remaining, "rejected iff a defect of a class that is not ignored remains")
	if got.err != nil && !grammar {
		vfAssert(vfHasClass(got.err, "output.ValidateCircularDeps: ") == cycle, "a cycle is reported iff there is one, whatever the flags")
		vfAssert(vfHasClass(got.err, "output.ValidateServicesScopes: ") == scope, "a scope violation is reported iff there is one, whatever the flags")
		vfAssert(vfHasClass(got.err, "output.ValidateParamsExist: ") == (mparam && !ip), "missing parameters are reported iff there are some and they are not ignored")
		vfAssert(vfHasClass(got.err, "output.ValidateServicesExist: ") == (msvc && !is), "missing services are reported iff there are some and they are not ignored")
	}
	// the single-class configurations: accepted exactly under the matching flag
	switch {
	case vfMenuOnlyMissingParam(sc.inputs["a.yaml"]):
		vfAssert((got.err == nil) == ip, "a configuration whose only defect is a missing parameter is accepted iff --ignore-missing-params")
	case vfMenuOnlyMissingService(sc.inputs["a.yaml"]):
		vfAssert((got.err == nil) == is, "a configuration whose only defect is a missing service is accepted iff --ignore-missing-services")
	}
	if base.err == nil {
		vfAssert(got.err == nil && len(got.writes) == 1 && len(base.writes) == 1 && got.writes[0] == base.writes[0], "a configuration accepted without flags yields the same output under any flags")
	}
	if ip && strings.Contains(got.stdout, "Validate output") {
		vfAssert(strings.Contains(got.stdout, "Missing parameters END") && strings.Contains(got.stdout, "ignored"), "the ignored rule is shown as ignored")
	}
	vfReach("C16_flags")
}

func vfOnlyArg(in input.Input, arg string) bool {
	if len(in.Services) != 1 || len(in.Decorators) != 0 {
		return false
	}
	for _, s := range in.Services {
		return len(s.Args) == 1 && s.Args[0] == arg
	}
	return false
}

func vfMenuOnlyMissingParam(in input.Input) bool   { return vfOnlyArg(in, "%nope%") }
func vfMenuOnlyMissingService(in input.Input) bool { return vfOnlyArg(in, "@nope") }

// VF_C17_decision: the accept/reject decision, the diagnostics and the file
// effect are the same with and without --stub, for every configuration of the
// menu and every ignore-flag combination.
func VF_C17_decision() {
	sc := vfScenario{patterns: []string{"P0"}, globErr: []bool{false}, globFiles: [][]string{{"a.yaml"}},
		readErr: map[string]bool{}, yamlErr: map[string]bool{}, inputs: map[string]input.Input{"a.yaml": vfMenu(vfChoice("menu", vfMenuSize))}}
	ip, is := vfBool("ignoreParams"), vfBool("ignoreServices")
	normal := vfRunBuild(sc, false, false, ip, is)
	stub := vfRunBuild(sc, false, true, ip, is)
	vfAssert((normal.err == nil) == (stub.err == nil), "the accept/reject decision is the same in both modes")
	ne, se := grouperror.Collection(normal.err), grouperror.Collection(stub.err)
	vfAssert(len(ne) == len(se), "the same number of diagnostics in both modes")
	if len(ne) == len(se) {
		for i := range ne {
			vfAssert(ne[i].Error() == se[i].Error(), "the same diagnostics in both modes")
		}
	}
	vfAssert(len(normal.writes) == len(stub.writes), "the output file is written in both modes or in neither")
	if len(stub.writes) == 1 {
		vfAssert(strings.Contains(stub.writes[0], "gontainerstub"), "the stub carries its build constraint")
	}
	vfReach("C17_decision")
}

// VF_C08_cwd: the same files and flags give the same printed report and the
// same generated file from every working directory (relative -i and -o).
func VF_C08_cwd() {
	sc := vfScenario{patterns: []string{"P0"}, globErr: []bool{false}, globFiles: [][]string{{"a.yaml"}},
		readErr: map[string]bool{}, yamlErr: map[string]bool{}, inputs: map[string]input.Input{"a.yaml": vfMenu(vfChoice("menu", vfMenuSize))}}
	stub := vfBool("stub")
	vfCwd = "/home/alice/project"
	r1 := vfRunBuild(sc, false, stub, false, false)
	vfCwd = "/tmp/b"
	r2 := vfRunBuild(sc, false, stub, false, false)
	vfCwd = "/work"
	vfAssert(r1.stdout == r2.stdout, "the printed report does not depend on the working directory")
	vfAssert((r1.err == nil) == (r2.err == nil), "the verdict does not depend on the working directory")
	vfAssert(len(r1.writes) == len(r2.writes), "the file effect does not depend on the working directory")
	if len(r1.writes) == 1 && len(r2.writes) == 1 {
		vfAssert(r1.writes[0] == r2.writes[0], "the generated file does not depend on the working directory")
	}
	vfReach("C08_cwd")
}

// aMatchedOnce: a.yaml is part of the merged configuration.
func aMatchedOnce(sc vfScenario) bool {
	n := 0
	for pi, fs := range sc.globFiles {
		if sc.globErr[pi] {
			continue
		}
		for _, f := range fs {
			if runner.VfCanon(f) == "a.yaml" {
				n++
			}
		}
	}
	return n == 1
}

// VF_C03_shipped_params: through the wiring as shipped (internal/gontainer):
// in `parameters` only the %...% notation is special; strings that look like
// the argument notations of services (@name, !tagged t, !value v, $gontainer)
// are plain strings and evaluate to themselves.
func VF_C03_shipped_params() {
	sc := vfScenario{patterns: []string{"P0"}, globErr: []bool{false}, globFiles: [][]string{{"a.yaml"}},
		readErr: map[string]bool{}, yamlErr: map[string]bool{}, inputs: map[string]input.Input{"a.yaml": vfMenu(19)}}
	r := vfRunBuild(sc, false, false, false, false)
	vfAssert(r.err == nil && len(r.writes) == 1, "parameter strings that look like argument notations are accepted")
	if len(r.writes) == 1 {
		for _, lit := range []string{"@handle", "!tagged x", "!value V", "$gontainer"} {
			vfAssert(strings.Contains(r.writes[0], "return "+vfQuote(lit)+", nil"), "... and evaluate to themselves")
		}
	}
	vfReach("C03_shipped_params")
}
