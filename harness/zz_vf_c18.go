package main

import (
	"strings"

	"golang.org/x/mod/semver"
)

func init() { vfRegister("VF_C18_build_version", VF_C18_build_version) }

// VF_C18_build_version: the version the build command (and with it the
// compatibility gate) receives from the linker-provided main.version: a
// semantic version injected with a leading v (ldflags, go install) arrives
// without it, so the gate applies to it; anything else arrives unchanged.
func VF_C18_build_version() {
	n := vfChoice("len", 1+vfBound("c18.build", 6, 8))
	b := vfASCIIString("B", 1+n)
	version, commit, isGitDirty, date, builtBy = b, "", "", "", ""
	got := buildVersion().GitVersion
	vfObserve("version", got)
	if strings.HasPrefix(b, "v") && semver.IsValid(b) {
		vfAssert(got == strings.TrimPrefix(b, "v"), "a v-prefixed semantic build version reaches the gate without the v")
		vfAssert(semver.IsValid("v"+got), "... and is a semantic version for the gate")
	} else {
		vfAssert(got == b, "any other build version reaches the gate unchanged")
	}
	vfReach("C18_build_version")
}
