package engine

import (
	"path/filepath"
	"fmt"
	"go/constant"
	"go/token"
	"go/types"
	"os"
	"sort"
	"strings"
	"time"

	"golang.org/x/tools/go/ssa"
)

// goPanic is a panic of the interpreted program.
type goPanic struct {
	msg string
	val Value
}

// pathAbort ends the current path without a verdict (assumption false, ...).
type pathAbort struct{ reason string }

// frontierAbort ends a path at the partitioning depth (its continuations are
// handed to other workers as decision prefixes).
type frontierAbort struct{}

// engineError: the engine cannot continue soundly (unsupported construct,
// bound exceeded). Makes the harness inconclusive.
type engineError struct{ msg string }

func unsupported(format string, a ...interface{}) {
	panic(engineError{msg: fmt.Sprintf(format, a...)})
}

// captureRec: a named capture whose value was introduced by existential
// decomposition; on witness paths its model value is compared with Go's regexp.
type captureRec struct {
	re      *Regex
	subject *Term
	name    string
	capture *Term
}

type decision struct {
	alt  int
	n    int
	feas []int8 // per alternative: 1 feasible, 2 infeasible (decided when the decision was created)
}

// Config bounds one harness run.
type Config struct {
	MaxStrLen    int  // bound used when a string's length must be made concrete
	MaxSymLoop   int  // iterations of one loop (per activation) that each take a solver decision; 0 = 64
	NonTermIsViolation bool // exceeding MaxSymLoop is a violation candidate (totality harnesses), not an unwinding failure
	MaxDecisions int  // per path
	MaxSteps     int  // per path
	MaxPaths     int  // per harness
	MapPerms     bool // fork over all iteration orders of maps
	TimeoutMs    int
	Tier         string
	MaxWallS     int // per harness wall-clock budget
	Witnesses    int // sample this many complete paths as concrete witnesses
	PermsInInit  bool // also permute ranges executed by package initialisers
	Deadline     time.Time // whole-property deadline shared by all workers (zero = none)
}

// Machine executes one harness function over all feasible paths.
type Machine struct {
	Prog   *ssa.Program
	Solver *Solver
	Cfg    Config
	Hooks  *Hooks

	// per path
	pc      []*Term
	pcKeys  map[string]bool
	dec     []decision
	pos     int
	fresh   int
	cellID  int
	globals map[*ssa.Global]*Cell
	inited  map[*ssa.Package]bool
	nondet  []*Term
	nondetNames map[string]int
	steps   int
	depth   int
	reached []string
	pathTags []string
	uncertain bool
	env     map[string]interface{} // per-path scratch for intrinsics / stubs

	// per harness
	Res *HarnessResult

	// concrete replay of a witness model (translator self-test, DESIGN 3.16)
	Concrete map[string]ModelVal
	Trace    []string

	captureLog []captureRec // regexp captures decomposed on this path (validated on witnesses)
	harnessPkg *ssa.Package // package of the harness being run
	curPkg     *ssa.Package // package of the function currently executing (for vfStub_* lookups)
	harnessFns map[*ssa.Function]bool

	frontierDepth int     // >0: stop at this many decisions and record prefixes
	Frontier      [][]int // recorded decision prefixes
	fixedPrefix   int     // decisions below this index are not backtracked
}

// Hooks let the property driver observe and extend the machine.
type Hooks struct {
	// Intrinsics adds / overrides function intrinsics by full SSA name.
	Intrinsics map[string]Intrinsic
}

type Intrinsic func(m *Machine, fn *ssa.Function, args []Value) Value

// Violation is a failed assertion with a model of the nondet inputs.
type Violation struct {
	Kind   string // "assert", "panic"
	Msg    string
	Model  map[string]ModelVal
	Order  []string // nondet variable names in creation order
	Path   []int
	PC     []string
	Tags   []string
}

type HarnessResult struct {
	Name        string
	Paths       int // complete feasible paths
	Pruned      int // paths ended by a false assumption
	Steps       int
	Decisions   int
	Asserts     int // assertion obligations discharged (unsat)
	Reached     map[string]int
	Violations  []Violation
	Inconclusive []string
	Samples     []map[string]interface{}
	Functions   map[string]bool
	UnwindChecks int
	Witnesses   []map[string]ModelVal // models of sampled complete paths
	CapturesValidated int
	RangeSites  map[string]int        // range-over-map statements executed under permutation mode with >= 2 entries
	Notes       map[string]bool       // restrictions the engine placed on the explored inputs
}

func NewMachine(prog *ssa.Program, solver *Solver, cfg Config, hooks *Hooks) *Machine {
	if cfg.MaxStrLen == 0 {
		cfg.MaxStrLen = 8
	}
	if cfg.MaxDecisions == 0 {
		cfg.MaxDecisions = 400
	}
	if cfg.MaxSteps == 0 {
		cfg.MaxSteps = 3_000_000
	}
	if cfg.MaxPaths == 0 {
		cfg.MaxPaths = 200_000
	}
	if hooks == nil {
		hooks = &Hooks{}
	}
	return &Machine{Prog: prog, Solver: solver, Cfg: cfg, Hooks: hooks}
}

// RunFrontier explores fn but stops every path at `depth` decisions, recording
// the decision prefixes to be continued by RunFrom. Paths that finish earlier
// are complete and counted in the result.
func (m *Machine) RunFrontier(fn *ssa.Function, depth int) (*HarnessResult, [][]int) {
	m.frontierDepth = depth
	m.Frontier = nil
	res := m.RunHarness(fn)
	m.frontierDepth = 0
	return res, m.Frontier
}

// RunFrom explores the subtree below a decision prefix.
func (m *Machine) RunFrom(fn *ssa.Function, prefix []int) *HarnessResult {
	m.Res = &HarnessResult{Name: fn.Name(), Reached: map[string]int{}, Functions: map[string]bool{}}
	m.dec = nil
	for _, a := range prefix {
		feas := make([]int8, a+1)
		feas[a] = 1
		m.dec = append(m.dec, decision{alt: a, n: a + 1, feas: feas})
	}
	m.fixedPrefix = len(prefix)
	defer func() { m.fixedPrefix = 0 }()
	return m.explore(fn)
}

// RunHarness explores all paths of fn (a niladic function).
func (m *Machine) RunHarness(fn *ssa.Function) *HarnessResult {
	m.Res = &HarnessResult{Name: fn.Name(), Reached: map[string]int{}, Functions: map[string]bool{}}
	m.dec = nil
	return m.explore(fn)
}

func (m *Machine) explore(fn *ssa.Function) *HarnessResult {
	m.harnessPkg = fn.Pkg
	start := time.Now()
	for {
		if !m.Cfg.Deadline.IsZero() && time.Now().After(m.Cfg.Deadline) {
			m.inconclusive("the property's wall-clock budget was exhausted after %d paths of this part (bound too large for this tier)", m.Res.Paths)
			break
		}
		if m.Cfg.MaxWallS > 0 && time.Since(start).Seconds() > float64(m.Cfg.MaxWallS) {
			m.inconclusive("wall-clock budget of %ds exceeded after %d paths (bound too large for this tier)", m.Cfg.MaxWallS, m.Res.Paths)
			break
		}
		if os.Getenv("VF_PROGRESS") != "" && (m.Res.Paths+m.Res.Pruned)%200 == 199 {
			fmt.Fprintf(os.Stderr, "[%s] paths=%d pruned=%d queries=%d %.0fs\n", fn.Name(), m.Res.Paths, m.Res.Pruned, m.Solver.Stats.Queries, time.Since(start).Seconds())
		}
		if m.Res.Paths+m.Res.Pruned >= m.Cfg.MaxPaths {
			m.inconclusive("path limit %d exceeded", m.Cfg.MaxPaths)
			break
		}
		m.runPath(fn)
		if !m.backtrack() {
			break
		}
	}
	return m.Res
}

func (m *Machine) inconclusive(format string, a ...interface{}) {
	s := fmt.Sprintf(format, a...)
	for _, x := range m.Res.Inconclusive {
		if x == s {
			return
		}
	}
	if len(m.Res.Inconclusive) < 20 {
		m.Res.Inconclusive = append(m.Res.Inconclusive, s)
	}
}

func (m *Machine) backtrack() bool {
	for len(m.dec) > m.fixedPrefix {
		d := &m.dec[len(m.dec)-1]
		next := d.alt + 1
		for next < d.n && d.feas[next] == 2 {
			next++
		}
		if next < d.n {
			d.alt = next
			return true
		}
		m.dec = m.dec[:len(m.dec)-1]
	}
	return false
}

func (m *Machine) resetPath() {
	m.pc = nil
	m.pcKeys = map[string]bool{}
	m.pos = 0
	m.fresh = 0
	m.cellID = 0
	m.globals = map[*ssa.Global]*Cell{}
	m.inited = map[*ssa.Package]bool{}
	m.nondet = nil
	m.nondetNames = map[string]int{}
	m.steps = 0
	m.depth = 0
	m.reached = nil
	m.pathTags = nil
	m.uncertain = false
	m.captureLog = nil
	m.env = map[string]interface{}{}
}

func (m *Machine) runPath(fn *ssa.Function) {
	m.resetPath()
	defer func() {
		m.Res.Steps += m.steps
		if r := recover(); r != nil {
			switch x := r.(type) {
			case frontierAbort:
				if m.pos < len(m.dec) {
					m.dec = m.dec[:m.pos]
				}
			case pathAbort:
				m.Res.Pruned++
				// drop decisions beyond the point reached so that backtracking
				// resumes from the last decision actually taken
				if m.pos < len(m.dec) {
					m.dec = m.dec[:m.pos]
				}
			case goPanic:
				m.Res.Paths++
				if m.pos < len(m.dec) {
					m.dec = m.dec[:m.pos]
				}
				m.recordViolation("panic", "panic: "+x.msg)
			case engineError:
				if m.pos < len(m.dec) {
					m.dec = m.dec[:m.pos]
				}
				m.inconclusive("%s", x.msg)
			default:
				panic(r)
			}
			return
		}
		m.Res.Paths++
		for _, id := range m.reached {
			m.Res.Reached[id]++
		}
		m.sampleWitness()
	}()
	m.callFunction(fn, nil)
}

// sampleWitness keeps a model of the inputs of some complete paths (the
// first ones, then ever more sparsely).
func (m *Machine) sampleWitness() {
	if m.Concrete != nil || m.Cfg.Witnesses == 0 || len(m.Res.Witnesses) >= m.Cfg.Witnesses {
		return
	}
	n := m.Res.Paths
	if m.Cfg.Witnesses < 8 && n > 3 && n%7 != 0 {
		return
	}
	vals := append([]*Term(nil), m.nondet...)
	for _, c := range m.captureLog {
		vals = append(vals, c.subject, c.capture)
	}
	res, model := m.Solver.CheckPCModel(m.pc, nil, vals)
	if res != Sat {
		return
	}
	// the capture decomposition must agree with Go's regexp on this model
	for _, c := range m.captureLog {
		subj, got := model[c.subject.Key()].S, model[c.capture.Key()].S
		if c.subject.IsConst() {
			subj = c.subject.S
		}
		if c.capture.IsConst() {
			got = c.capture.S
		}
		mt := c.re.Go.FindStringSubmatch(subj)
		want := ""
		for i, n := range c.re.Go.SubexpNames() {
			if n == c.name && mt != nil {
				want = mt[i]
			}
		}
		m.Res.CapturesValidated++
		if mt == nil || want != got {
			m.inconclusive("CAPTURE-MODEL-MISMATCH: group %q of %q on subject %q: Go gives %q, the decomposition %q", c.name, truncate(c.re.Pattern, 60), subj, want, got)
		}
	}
	w := map[string]ModelVal{}
	for _, nv := range m.nondet {
		if mv, ok := model[nv.Key()]; ok {
			w[nv.S] = mv
		}
	}
	if ch, ok := m.env["choices"].(map[string]int64); ok {
		for k, v := range ch {
			w[k] = ModelVal{Sort: SInt, I: v}
		}
	}
	m.Res.Witnesses = append(m.Res.Witnesses, w)
}

// RunConcrete executes fn once with every harness input taken from model and
// returns the observation trace (assert outcomes, reach marks, observations).
func (m *Machine) RunConcrete(fn *ssa.Function, model map[string]ModelVal) (trace []string, problem string) {
	m.Res = &HarnessResult{Name: fn.Name(), Reached: map[string]int{}, Functions: map[string]bool{}}
	m.dec = nil
	m.resetPath()
	m.harnessPkg = fn.Pkg
	m.Concrete = model
	m.Trace = nil
	defer func() {
		m.Concrete = nil
		trace = m.Trace
		if r := recover(); r != nil {
			switch x := r.(type) {
			case pathAbort:
				trace = append(trace, "skip")
			case goPanic:
				trace = append(trace, "panic")
				_ = x
			case engineError:
				problem = x.msg
			default:
				panic(r)
			}
		}
	}()
	m.callFunction(fn, nil)
	return
}

// ---------------------------------------------------------------------------
// path condition and decisions

func (m *Machine) note(s string) {
	if m.Res.Notes == nil {
		m.Res.Notes = map[string]bool{}
	}
	m.Res.Notes[s] = true
}

func (m *Machine) assume(t *Term) {
	if t.IsConst() {
		if !t.B {
			panic(pathAbort{"assume false"})
		}
		return
	}
	if t.Op == "and" {
		for _, a := range t.Args {
			m.assume(a)
		}
		return
	}
	k := t.Key()
	if m.pcKeys[k] {
		return
	}
	m.pcKeys[k] = true
	m.pc = append(m.pc, t)
}

// feasible asks whether PC ∧ c is satisfiable. Unknown counts as feasible.
func (m *Machine) feasible(c *Term) Result {
	if c.IsConst() {
		if c.B {
			return Sat
		}
		return Unsat
	}
	if m.pcKeys[c.Key()] {
		return Sat
	}
	if m.pcKeys[Not(c).Key()] {
		return Unsat
	}
	r := m.Solver.CheckPC(m.pc, []*Term{c})
	return r
}

// choose picks among n alternatives; cond(i) is the constraint of alternative
// i. exhaustive: the alternatives cover all cases.
func (m *Machine) choose(n int, exhaustive bool, cond func(i int) *Term) int {
	if n == 1 && exhaustive {
		return 0
	}
	if m.Concrete != nil {
		// all inputs are concrete: exactly one alternative can be true
		for alt := 0; alt < n; alt++ {
			c := cond(alt)
			if c.IsConst() {
				if c.B {
					return alt
				}
				continue
			}
			unsupported("concrete self-test: a branch condition stayed symbolic: %s", truncate(c.SMT(), 200))
		}
		panic(pathAbort{"no alternative"})
	}
	if len(m.dec) > m.Cfg.MaxDecisions {
		m.Res.UnwindChecks++
		unsupported("UNWIND-INSUFFICIENT: more than %d decisions on one path", m.Cfg.MaxDecisions)
	}
	if m.pos < len(m.dec) {
		d := &m.dec[m.pos]
		m.pos++
		m.assume(cond(d.alt))
		return d.alt
	}
	// new decision: decide the feasibility of every alternative now, so that
	// backtracking never re-executes a prefix only to find a dead branch
	feas := make([]int8, n)
	first := -1
	nsat := 0
	for alt := 0; alt < n; alt++ {
		c := cond(alt)
		var r Result
		if exhaustive && alt == n-1 && nsat == 0 {
			r = Sat // implied by feasibility of the path condition
		} else {
			r = m.feasible(c)
		}
		if r == Unsat {
			feas[alt] = 2
			continue
		}
		if r == Unknown {
			m.uncertain = true
		}
		feas[alt] = 1
		nsat++
		if first < 0 {
			first = alt
		}
	}
	if first < 0 {
		panic(pathAbort{"no feasible alternative"})
	}
	if m.frontierDepth > 0 && len(m.dec) >= m.frontierDepth {
		base := make([]int, 0, len(m.dec)+1)
		for _, d := range m.dec {
			base = append(base, d.alt)
		}
		for alt := 0; alt < n; alt++ {
			if feas[alt] == 1 {
				m.Frontier = append(m.Frontier, append(append([]int(nil), base...), alt))
			}
		}
		panic(frontierAbort{})
	}
	m.dec = append(m.dec, decision{alt: first, n: n, feas: feas})
	m.Res.Decisions++
	m.pos++
	m.assume(cond(first))
	return first
}

// branch forks on a Boolean value; returns the concrete outcome on this path.
func (m *Machine) branch(v Value) bool {
	switch x := v.(type) {
	case bool:
		return x
	case *Term:
		if x.IsConst() {
			return x.B
		}
		alt := m.choose(2, true, func(i int) *Term {
			if i == 0 {
				return x
			}
			return Not(x)
		})
		return alt == 0
	}
	panic(fmt.Sprintf("branch on %T", v))
}

// concretizeInt forks over the possible values lo..hi of an Int term.
func (m *Machine) concretizeInt(v Value, lo, hi int64, what string) int64 {
	switch x := v.(type) {
	case int64:
		return x
	case *Term:
		if x.IsConst() {
			return x.I
		}
		n := int(hi-lo) + 2
		alt := m.choose(n, true, func(i int) *Term {
			if i == n-1 {
				return Or(Lt(x, IntT(lo)), Gt(x, IntT(hi)))
			}
			return Eq(x, IntT(lo+int64(i)))
		})
		if alt == n-1 {
			m.Res.UnwindChecks++
			unsupported("UNWIND-INSUFFICIENT: %s outside [%d,%d]", what, lo, hi)
		}
		return lo + int64(alt)
	}
	panic(fmt.Sprintf("concretizeInt %T", v))
}

func (m *Machine) newCell(v Value) *Cell {
	m.cellID++
	return &Cell{V: v, ID: m.cellID}
}

func (m *Machine) freshVar(prefix string, s Sort) *Term {
	m.fresh++
	tag := "s"
	switch s {
	case SBool:
		tag = "b"
	case SInt:
		tag = "i"
	}
	return VarT(fmt.Sprintf("%s_%s%d", sanitizeName(prefix), tag, m.fresh), s)
}

func sanitizeName(s string) string {
	var b strings.Builder
	for _, r := range s {
		if (r >= 'a' && r <= 'z') || (r >= 'A' && r <= 'Z') || (r >= '0' && r <= '9') || r == '_' {
			b.WriteRune(r)
		} else {
			b.WriteByte('_')
		}
	}
	if b.Len() == 0 {
		return "v"
	}
	return b.String()
}

// nondetVar creates a named harness input. Repeated names get a suffix.
func (m *Machine) nondetVar(name string, s Sort) *Term {
	base := "in_" + sanitizeName(name)
	k := m.nondetNames[base]
	m.nondetNames[base] = k + 1
	if k > 0 {
		base = fmt.Sprintf("%s__%d", base, k)
	}
	tag := "S"
	switch s {
	case SBool:
		tag = "B"
	case SInt:
		tag = "I"
	}
	v := VarT(base+"_"+tag, s)
	m.nondet = append(m.nondet, v)
	return v
}

func (m *Machine) recordViolation(kind, msg string) {
	res, model := m.Solver.CheckPCModel(m.pc, nil, m.nondet)
	if res == Unsat {
		return // path was only kept because of an unknown; not a real violation
	}
	if res == Unknown {
		m.inconclusive("violation candidate (%s) without model: solver unknown", msg)
		return
	}
	m.addViolation(kind, msg, model)
}

func (m *Machine) addViolation(kind, msg string, model map[string]ModelVal) {
	v := Violation{Kind: kind, Msg: msg, Model: map[string]ModelVal{}, Tags: append([]string(nil), m.pathTags...)}
	for _, nv := range m.nondet {
		v.Order = append(v.Order, nv.S)
		if mv, ok := model[nv.Key()]; ok {
			v.Model[nv.S] = mv
		}
	}
	if ch, ok := m.env["choices"].(map[string]int64); ok {
		for _, k := range sortedKeys(ch) {
			v.Order = append(v.Order, k)
			v.Model[k] = ModelVal{Sort: SInt, I: ch[k]}
		}
	}
	for _, d := range m.dec[:m.pos] {
		v.Path = append(v.Path, d.alt)
	}
	for _, p := range m.pc {
		v.PC = append(v.PC, p.SMT())
	}
	// keep at most a few violations per message
	cnt := 0
	for _, x := range m.Res.Violations {
		if x.Msg == msg {
			cnt++
		}
	}
	if cnt < 3 {
		m.Res.Violations = append(m.Res.Violations, v)
	}
}

// assert checks PC ⇒ c.
func (m *Machine) assert(c Value, msg string) {
	t := toTerm(c)
	if t.IsConst() && t.B {
		m.Res.Asserts++
		return
	}
	neg := Not(t)
	if !neg.IsConst() && m.pcKeys[t.Key()] {
		m.Res.Asserts++
		return
	}
	res, model := m.Solver.CheckPCModel(m.pc, []*Term{neg}, m.nondet)
	switch res {
	case Unsat:
		m.Res.Asserts++
		if len(m.Res.Samples) < 6 {
			m.Res.Samples = append(m.Res.Samples, map[string]interface{}{
				"harness": m.Res.Name, "obligation": msg, "verdict": "unsat (holds on this path)",
				"path_condition_conjuncts": len(m.pc), "negated_assertion": truncate(neg.SMT(), 300),
			})
		}
	case Sat:
		m.addViolation("assert", msg, model)
		// continue under the assumption that the assertion holds, if possible
		if m.feasible(t) == Unsat {
			panic(pathAbort{"assertion always false here"})
		}
		m.assume(t)
		return
	default:
		m.inconclusive("assertion %q: solver unknown", msg)
	}
	m.assume(t)
}

func truncate(s string, n int) string {
	if len(s) > n {
		return s[:n] + "…"
	}
	return s
}

// ---------------------------------------------------------------------------
// globals and package initialisation

func (m *Machine) global(g *ssa.Global) *Cell {
	if c, ok := m.globals[g]; ok {
		return c
	}
	m.ensureInit(g.Pkg)
	if c, ok := m.globals[g]; ok {
		return c
	}
	c := m.newCell(zero(g.Type().(*types.Pointer).Elem()))
	if g.Pkg != nil {
		if init, ok := globalInits[g.Pkg.Pkg.Path()+"."+g.Name()]; ok {
			c.V = init(m)
		}
	}
	m.globals[g] = c
	return c
}

// execPackages lists the packages whose code (and init) is executed.
func execPackage(path string) bool {
	switch {
	case strings.HasPrefix(path, "github.com/gontainer/gontainer"):
		// the repo itself and gontainer-helpers
		if strings.HasPrefix(path, "github.com/gontainer/gontainer-helpers") {
			switch strings.TrimPrefix(path, "github.com/gontainer/gontainer-helpers/v3/") {
			case "grouperror", "container/graph", "container/internal/graph":
				return true
			}
			return false
		}
		return true
	case path == "golang.org/x/mod/semver", path == "errors":
		return true
	case path == "github.com/caarlos0/go-version":
		// option constructors are executed; GetVersionInfo is an intrinsic
		return true
	}
	return false
}

func (m *Machine) ensureInit(p *ssa.Package) {
	if p == nil || m.inited[p] {
		return
	}
	m.inited[p] = true
	if !execPackage(p.Pkg.Path()) {
		return
	}
	if p.Pkg.Path() == "errors" {
		return
	}
	// allocate all globals first
	for _, mem := range p.Members {
		if g, ok := mem.(*ssa.Global); ok {
			if _, ok := m.globals[g]; !ok {
				m.globals[g] = m.newCell(zero(g.Type().(*types.Pointer).Elem()))
			}
		}
	}
	if init := p.Func("init"); init != nil && len(init.Blocks) > 0 {
		m.callFunction(init, nil)
	}
}

// ---------------------------------------------------------------------------
// function calls

type frame struct {
	fn     *ssa.Function
	visits map[*ssa.BasicBlock]*loopCount
	regs   map[ssa.Value]Value
	defers []func()
	result Value
	env    []Value
}

// small keeps the terms a program builds up step by step (a string rewritten
// in a loop) from growing without bound: a big String/Int term is given a name,
// a fresh variable constrained to equal it. The meaning is unchanged.
func (m *Machine) small(v Value) Value {
	t, ok := v.(*Term)
	if !ok || t.Sort == SBool || t.Op == "var" || t.Op == "const" {
		return v
	}
	if t.approxSize(600) < 600 {
		return v
	}
	nv := m.freshVar("nm", t.Sort)
	m.assume(Eq(nv, t))
	return nv
}

// approxSize counts nodes up to limit.
func (t *Term) approxSize(limit int) int {
	n := 1
	for _, a := range t.Args {
		if n >= limit {
			return n
		}
		n += a.approxSize(limit - n)
	}
	return n
}

// isHarnessFn: functions of the harness files (zz_vf_*.go): their loops walk
// over what the code under test produced and are bounded by construction.
func (m *Machine) isHarnessFn(fn *ssa.Function) bool {
	if m.harnessFns == nil {
		m.harnessFns = map[*ssa.Function]bool{}
	}
	if v, ok := m.harnessFns[fn]; ok {
		return v
	}
	f := fn
	for f.Parent() != nil {
		f = f.Parent()
	}
	v := strings.Contains(filepath.Base(m.Prog.Fset.Position(f.Pos()).Filename), "zz_vf_")
	m.harnessFns[fn] = v
	return v
}

// loopCount: how often a block was entered in one activation with at least one
// new solver decision since the previous entry (iterations of a loop whose
// continuation depends on symbolic data).
type loopCount struct{ n, lastDec int }

func (m *Machine) callFunction(fn *ssa.Function, args []Value) Value {
	return m.callClosure(fn, nil, args)
}

func (m *Machine) callClosure(fn *ssa.Function, env []Value, args []Value) (result Value) {
	name := fn.String()
	if fn.Origin() != nil {
		name = fn.Origin().String()
	}
	if in, ok := m.Hooks.Intrinsics[name]; ok {
		return in(m, fn, args)
	}
	if strings.HasPrefix(fn.Name(), "vf") && fn.Signature.Recv() == nil {
		if r, ok := m.harnessAPI(fn, args); ok {
			return r
		}
	}
	if in, ok := intrinsics[name]; ok {
		return in(m, fn, args)
	}
	pkgPath := ""
	if fn.Pkg != nil {
		pkgPath = fn.Pkg.Pkg.Path()
	} else if fn.Origin() != nil && fn.Origin().Pkg != nil {
		pkgPath = fn.Origin().Pkg.Pkg.Path()
	} else if fn.Object() != nil && fn.Object().Pkg() != nil {
		pkgPath = fn.Object().Pkg().Path()
	} else if recv := fn.Signature.Recv(); recv != nil {
		// wrapper / thunk: look at the receiver's package
		if n := namedOf(recv.Type()); n != nil && n.Obj().Pkg() != nil {
			pkgPath = n.Obj().Pkg().Path()
		}
	} else if fn.Parent() != nil && fn.Parent().Pkg != nil {
		pkgPath = fn.Parent().Pkg.Pkg.Path()
	}
	if fn.Name() == "init" && fn.Synthetic != "" && fn.Pkg != nil {
		if !execPackage(pkgPath) || pkgPath == "errors" {
			return nil
		}
		if m.inited[fn.Pkg] && m.depth > 0 {
			// already (being) initialised via ensureInit
		}
	}
	if fn.Synthetic != "" && (pkgPath == "" || strings.HasPrefix(fn.Synthetic, "bound method wrapper") || strings.HasPrefix(fn.Synthetic, "wrapper for") || strings.HasPrefix(fn.Synthetic, "thunk for")) {
		// bound-method closures, thunks and promotion wrappers only forward to
		// their target, which is checked itself
	} else if !execPackage(pkgPath) && !(fn.Parent() != nil) {
		// environment stub supplied by the harness files of the calling
		// package: vfStub_<pkg>_<Func>
		if stubPkg := m.curPkg; stubPkg != nil && fn.Signature.Recv() == nil {
			short := pkgPath
			if i := strings.LastIndex(short, "/"); i >= 0 {
				short = short[i+1:]
			}
			short = strings.TrimSuffix(short, ".v3")
			if stub := stubPkg.Func("vfStub_" + sanitizeName(short) + "_" + fn.Name()); stub != nil {
				return m.callClosure(stub, nil, args)
			}
		}
		// a method of such a package on a receiver made by a constructor stub:
		// vfStubM_<pkg>_<Type>_<Method>(receiver, args...)
		if stubPkg := m.curPkg; stubPkg != nil && fn.Signature.Recv() != nil {
			rt := fn.Signature.Recv().Type()
			if p, ok := rt.(*types.Pointer); ok {
				rt = p.Elem()
			}
			if nt, ok := rt.(*types.Named); ok {
				short := pkgPath
				if i := strings.LastIndex(short, "/"); i >= 0 {
					short = short[i+1:]
				}
				short = strings.TrimSuffix(short, ".v3")
				if stub := stubPkg.Func("vfStubM_" + sanitizeName(short) + "_" + nt.Obj().Name() + "_" + fn.Name()); stub != nil {
					return m.callClosure(stub, nil, args)
				}
			}
		}
		unsupported("call to %s (package %q is not executed and has no intrinsic)", name, pkgPath)
	}
	if len(fn.Blocks) == 0 {
		unsupported("call to %s: no body", name)
	}
	if fn.Pkg != nil {
		m.ensureInit(fn.Pkg)
	}
	m.Res.Functions[name] = true
	if fn.Pkg != nil {
		saved := m.curPkg
		m.curPkg = fn.Pkg
		defer func() { m.curPkg = saved }()
	}
	m.depth++
	if m.depth > 300 {
		unsupported("UNWIND-INSUFFICIENT: call depth > 300 at %s", name)
	}
	defer func() { m.depth-- }()

	fr := &frame{fn: fn, regs: make(map[ssa.Value]Value, 16), env: env}
	for i, p := range fn.Params {
		fr.regs[p] = args[i]
	}
	for i, fv := range fn.FreeVars {
		fr.regs[fv] = env[i]
	}

	// run with Go-panic handling so that deferred calls execute
	var pnc *goPanic
	func() {
		defer func() {
			if r := recover(); r != nil {
				if gp, ok := r.(goPanic); ok {
					pnc = &gp
					return
				}
				panic(r)
			}
		}()
		m.runBlocks(fr)
	}()
	if pnc != nil {
		// run deferred functions, then re-panic (no recover() support needed)
		for i := len(fr.defers) - 1; i >= 0; i-- {
			fr.defers[i]()
		}
		panic(*pnc)
	}
	return fr.result
}

func namedOf(t types.Type) *types.Named {
	if p, ok := t.(*types.Pointer); ok {
		t = p.Elem()
	}
	n, _ := t.(*types.Named)
	return n
}

func (m *Machine) runBlocks(fr *frame) {
	var prev *ssa.BasicBlock
	b := fr.fn.Blocks[0]
	for b != nil {
		next := m.runBlock(fr, b, prev)
		prev, b = b, next
	}
}

func (m *Machine) get(fr *frame, v ssa.Value) Value {
	switch x := v.(type) {
	case *ssa.Const:
		return m.constValue(x)
	case *ssa.Global:
		return Pointer{C: m.global(x)}
	case *ssa.Function:
		return x
	case *ssa.Builtin:
		return x
	}
	if r, ok := fr.regs[v]; ok {
		return r
	}
	panic(fmt.Sprintf("get: no value for %s (%T) in %s", v.Name(), v, fr.fn))
}

func (m *Machine) constValue(c *ssa.Const) Value {
	t := c.Type()
	if c.Value == nil {
		return zero(t)
	}
	switch u := t.Underlying().(type) {
	case *types.Basic:
		switch {
		case u.Info()&types.IsBoolean != 0:
			return constant.BoolVal(c.Value)
		case u.Info()&types.IsInteger != 0:
			if i, ok := constant.Int64Val(constant.ToInt(c.Value)); ok {
				return i
			}
			if u64, ok := constant.Uint64Val(constant.ToInt(c.Value)); ok {
				return int64(u64)
			}
			unsupported("integer constant out of range: %v", c.Value)
		case u.Info()&types.IsString != 0:
			return constant.StringVal(c.Value)
		case u.Info()&types.IsFloat != 0:
			f, _ := constant.Float64Val(c.Value)
			return f
		}
	}
	unsupported("constant of type %v", t)
	return nil
}

func (m *Machine) runBlock(fr *frame, b *ssa.BasicBlock, prev *ssa.BasicBlock) *ssa.BasicBlock {
	// unwinding check for loops steered by symbolic data
	if len(b.Preds) > 1 && !m.isHarnessFn(fr.fn) {
		if fr.visits == nil {
			fr.visits = map[*ssa.BasicBlock]*loopCount{}
		}
		lc := fr.visits[b]
		if lc == nil {
			lc = &loopCount{lastDec: m.pos}
			fr.visits[b] = lc
		} else if m.pos > lc.lastDec {
			lc.n++
			lc.lastDec = m.pos
			max := m.Cfg.MaxSymLoop
			if max == 0 {
				max = 64
			}
			if lc.n > max {
				m.Res.UnwindChecks++
				where := m.Prog.Fset.Position(b.Instrs[0].Pos()).String()
				if m.Cfg.NonTermIsViolation {
					m.recordViolation("nontermination", fmt.Sprintf("a loop in %s (%s) is still running after %d iterations that each depend on the input: it does not terminate on an input of bounded size", fr.fn.String(), where, max))
					panic(pathAbort{"unbounded loop"})
				}
				unsupported("UNWIND-INSUFFICIENT: a loop in %s (%s) needs more than %d input-dependent iterations", fr.fn.String(), where, max)
			}
		}
	}
	// phis are evaluated simultaneously
	var phiVals []Value
	nphi := 0
	for _, ins := range b.Instrs {
		phi, ok := ins.(*ssa.Phi)
		if !ok {
			break
		}
		nphi++
		idx := -1
		for i, p := range b.Preds {
			if p == prev {
				idx = i
				break
			}
		}
		phiVals = append(phiVals, m.get(fr, phi.Edges[idx]))
	}
	for i := 0; i < nphi; i++ {
		fr.regs[b.Instrs[i].(*ssa.Phi)] = phiVals[i]
	}
	for _, ins := range b.Instrs[nphi:] {
		m.steps++
		if m.steps > m.Cfg.MaxSteps {
			m.Res.UnwindChecks++
			unsupported("UNWIND-INSUFFICIENT: more than %d instructions on one path", m.Cfg.MaxSteps)
		}
		switch x := ins.(type) {
		case *ssa.If:
			if m.branch(m.get(fr, x.Cond)) {
				return b.Succs[0]
			}
			return b.Succs[1]
		case *ssa.Jump:
			return b.Succs[0]
		case *ssa.Return:
			switch len(x.Results) {
			case 0:
				fr.result = nil
			case 1:
				fr.result = m.get(fr, x.Results[0])
			default:
				t := make(Tuple, len(x.Results))
				for i, r := range x.Results {
					t[i] = m.get(fr, r)
				}
				fr.result = t
			}
			return nil
		case *ssa.Panic:
			v := m.get(fr, x.X)
			panic(goPanic{msg: m.panicText(v), val: v})
		case *ssa.RunDefers:
			ds := fr.defers
			fr.defers = nil
			for i := len(ds) - 1; i >= 0; i-- {
				ds[i]()
			}
		case *ssa.Defer:
			fnv, args := m.prepareCall(fr, &x.Call)
			fr.defers = append(fr.defers, func() { m.invoke(fnv, args, &x.Call) })
		case *ssa.Go, *ssa.Select, *ssa.Send:
			unsupported("concurrency instruction %T", ins)
		case *ssa.Store:
			p := m.get(fr, x.Addr).(Pointer)
			p.store(m.get(fr, x.Val))
		case *ssa.MapUpdate:
			m.mapUpdate(m.get(fr, x.Map), m.get(fr, x.Key), m.get(fr, x.Value))
		case *ssa.DebugRef:
		case ssa.Value:
			fr.regs[x] = m.small(m.eval(fr, x))
		default:
			unsupported("instruction %T", ins)
		}
	}
	return nil
}

func (m *Machine) panicText(v Value) string {
	if i, ok := v.(Iface); ok {
		if i.T == nil {
			return "nil"
		}
		if s, ok := i.V.(string); ok {
			return s
		}
		if t, ok := i.V.(*Term); ok {
			return t.SMT()
		}
		return describe(i.V)
	}
	return describe(v)
}

func (m *Machine) prepareCall(fr *frame, c *ssa.CallCommon) (Value, []Value) {
	var args []Value
	var fnv Value
	if c.IsInvoke() {
		recv := m.get(fr, c.Value)
		fnv = recv
	} else {
		fnv = m.get(fr, c.Value)
	}
	for _, a := range c.Args {
		args = append(args, m.get(fr, a))
	}
	return fnv, args
}

func (m *Machine) invoke(fnv Value, args []Value, c *ssa.CallCommon) Value {
	if c.IsInvoke() {
		recv, ok := fnv.(Iface)
		if !ok {
			panic(fmt.Sprintf("invoke on %T", fnv))
		}
		if recv.T == nil {
			panic(goPanic{msg: "nil interface method call " + c.Method.Name()})
		}
		return m.callMethod(recv, c.Method, args)
	}
	return m.callValue(fnv, args)
}

// callMethod dispatches method `meth` on the dynamic value of an interface.
func (m *Machine) callMethod(recv Iface, meth *types.Func, args []Value) Value {
	if hv, ok := recv.V.(*HarnessObj); ok {
		return hv.Call(m, meth.Name(), args)
	}
	sel := m.Prog.MethodSets.MethodSet(recv.T).Lookup(meth.Pkg(), meth.Name())
	if sel == nil {
		unsupported("method %s not found on %s", meth.Name(), recv.T)
	}
	fn := m.Prog.MethodValue(sel)
	if fn == nil {
		unsupported("no SSA for method %s on %s", meth.Name(), recv.T)
	}
	return m.callClosure(fn, nil, append([]Value{recv.V}, args...))
}

func (m *Machine) callValue(fnv Value, args []Value) Value {
	switch f := fnv.(type) {
	case *ssa.Function:
		return m.callClosure(f, nil, args)
	case *Closure:
		if f == nil {
			panic(goPanic{msg: "call of nil func"})
		}
		return m.callClosure(f.Fn, f.Env, args)
	case *ssa.Builtin:
		return m.builtin(f, args, nil)
	case *NativeFunc:
		return f.Fn(m, args)
	}
	panic(fmt.Sprintf("callValue: %T", fnv))
}

// NativeFunc is an engine-implemented function value.
type NativeFunc struct {
	Name string
	Fn   func(m *Machine, args []Value) Value
}

// HarnessObj is an engine-implemented object behind an interface.
type HarnessObj struct {
	Kind string
	Call func(m *Machine, method string, args []Value) Value
	X    map[string]Value
}

// ---------------------------------------------------------------------------
// expression evaluation

func (m *Machine) eval(fr *frame, v ssa.Value) Value {
	switch x := v.(type) {
	case *ssa.Alloc:
		return Pointer{C: m.newCell(zero(x.Type().(*types.Pointer).Elem()))}
	case *ssa.BinOp:
		return m.binop(x.Op, m.get(fr, x.X), m.get(fr, x.Y), x.X.Type())
	case *ssa.UnOp:
		return m.unop(x, m.get(fr, x.X))
	case *ssa.Call:
		fnv, args := m.prepareCall(fr, &x.Call)
		if b, ok := fnv.(*ssa.Builtin); ok {
			return m.builtin(b, args, &x.Call)
		}
		return m.invoke(fnv, args, &x.Call)
	case *ssa.ChangeInterface:
		return m.get(fr, x.X)
	case *ssa.ChangeType:
		return m.get(fr, x.X)
	case *ssa.Convert:
		return m.convert(m.get(fr, x.X), x.X.Type(), x.Type())
	case *ssa.Extract:
		return m.get(fr, x.Tuple).(Tuple)[x.Index]
	case *ssa.Field:
		return m.get(fr, x.X).(*Struct).F[x.Field]
	case *ssa.FieldAddr:
		p := m.get(fr, x.X).(Pointer)
		if p.C == nil {
			panic(goPanic{msg: "nil pointer dereference (field address)"})
		}
		return p.sub(x.Field)
	case *ssa.Index:
		return m.index(m.get(fr, x.X), m.get(fr, x.Index), x.X.Type())
	case *ssa.IndexAddr:
		return m.indexAddr(m.get(fr, x.X), m.get(fr, x.Index))
	case *ssa.Lookup:
		return m.lookup(m.get(fr, x.X), m.get(fr, x.Index), x.CommaOk, x.X.Type(), x.Type())
	case *ssa.MakeClosure:
		env := make([]Value, len(x.Bindings))
		for i, b := range x.Bindings {
			env[i] = m.get(fr, b)
		}
		return &Closure{Fn: x.Fn.(*ssa.Function), Env: env}
	case *ssa.MakeInterface:
		return Iface{T: x.X.Type(), V: m.get(fr, x.X)}
	case *ssa.MakeMap:
		m.cellID++
		return MapRef{M: &MapObj{ID: m.cellID}}
	case *ssa.MakeSlice:
		n := m.concretizeInt(m.get(fr, x.Len), 0, 64, "make([]T, n)")
		c := m.concretizeInt(m.get(fr, x.Cap), 0, 64, "make([]T, _, c)")
		if n < 0 || c < n {
			panic(goPanic{msg: "makeslice: len out of range"})
		}
		arr := &Array{E: make([]Value, c)}
		et := x.Type().Underlying().(*types.Slice).Elem()
		for i := range arr.E {
			arr.E[i] = zero(et)
		}
		return Slice{C: m.newCell(arr), Off: 0, Len: int(n), Cap: int(c)}
	case *ssa.Next:
		return m.next(m.get(fr, x.Iter).(*iterator), x)
	case *ssa.Range:
		return m.rangeIter(m.get(fr, x.X), x.X.Type(), x)
	case *ssa.Slice:
		return m.sliceOp(fr, x)
	case *ssa.TypeAssert:
		return m.typeAssert(m.get(fr, x.X), x)
	case *ssa.MultiConvert:
		return m.convert(m.get(fr, x.X), x.X.Type(), x.Type())
	}
	unsupported("value instruction %T in %s", v, fr.fn)
	return nil
}

// wrapInt truncates a concrete integer to the width of t.
func wrapInt(i int64, t types.Type) int64 {
	b, ok := t.Underlying().(*types.Basic)
	if !ok {
		return i
	}
	switch b.Kind() {
	case types.Int8:
		return int64(int8(i))
	case types.Int16:
		return int64(int16(i))
	case types.Int32:
		return int64(int32(i))
	case types.Uint8:
		return int64(uint8(i))
	case types.Uint16:
		return int64(uint16(i))
	case types.Uint32:
		return int64(uint32(i))
	}
	return i
}

func (m *Machine) binop(op token.Token, a, b Value, t types.Type) Value {
	// comparisons of references
	switch op {
	case token.EQL, token.NEQ:
		r := m.equal(a, b, t)
		if op == token.NEQ {
			return m.not(r)
		}
		return r
	}
	switch {
	case typeIsString(t):
		a, b = forceLazy(a), forceLazy(b)
		_, sa := a.(string)
		_, sb := b.(string)
		if sa && sb {
			x, y := a.(string), b.(string)
			switch op {
			case token.ADD:
				return x + y
			case token.LSS:
				return x < y
			case token.LEQ:
				return x <= y
			case token.GTR:
				return x > y
			case token.GEQ:
				return x >= y
			}
		}
		x, y := toTerm(a), toTerm(b)
		switch op {
		case token.ADD:
			return fromTerm(Concat(x, y))
		case token.LSS:
			return fromTerm(StrLt(x, y))
		case token.LEQ:
			return fromTerm(StrLe(x, y))
		case token.GTR:
			return fromTerm(StrLt(y, x))
		case token.GEQ:
			return fromTerm(StrLe(y, x))
		}
	case typeIsInt(t):
		ia, oka := a.(int64)
		ib, okb := b.(int64)
		if oka && okb {
			unsigned := t.Underlying().(*types.Basic).Info()&types.IsUnsigned != 0
			switch op {
			case token.ADD:
				return wrapInt(ia+ib, t)
			case token.SUB:
				return wrapInt(ia-ib, t)
			case token.MUL:
				return wrapInt(ia*ib, t)
			case token.QUO:
				if ib == 0 {
					panic(goPanic{msg: "integer divide by zero"})
				}
				if unsigned {
					return int64(uint64(ia) / uint64(ib))
				}
				return wrapInt(ia/ib, t)
			case token.REM:
				if ib == 0 {
					panic(goPanic{msg: "integer divide by zero"})
				}
				if unsigned {
					return int64(uint64(ia) % uint64(ib))
				}
				return ia % ib
			case token.AND:
				return ia & ib
			case token.OR:
				return ia | ib
			case token.XOR:
				return wrapInt(ia^ib, t)
			case token.SHL:
				return wrapInt(ia<<uint64(ib), t)
			case token.SHR:
				if unsigned {
					return int64(uint64(ia) >> uint64(ib))
				}
				return ia >> uint64(ib)
			case token.AND_NOT:
				return ia &^ ib
			case token.LSS:
				if unsigned {
					return uint64(ia) < uint64(ib)
				}
				return ia < ib
			case token.LEQ:
				if unsigned {
					return uint64(ia) <= uint64(ib)
				}
				return ia <= ib
			case token.GTR:
				if unsigned {
					return uint64(ia) > uint64(ib)
				}
				return ia > ib
			case token.GEQ:
				if unsigned {
					return uint64(ia) >= uint64(ib)
				}
				return ia >= ib
			}
		}
		x, y := toTerm(a), toTerm(b)
		switch op {
		case token.ADD:
			return m.checkedInt(Add(x, y), t)
		case token.SUB:
			return m.checkedInt(Sub(x, y), t)
		case token.MUL:
			return m.checkedInt(Mul(x, y), t)
		case token.LSS:
			return fromTerm(Lt(x, y))
		case token.LEQ:
			return fromTerm(Le(x, y))
		case token.GTR:
			return fromTerm(Gt(x, y))
		case token.GEQ:
			return fromTerm(Ge(x, y))
		}
		unsupported("symbolic integer op %v", op)
	case typeIsBool(t):
		x, y := toTerm(a), toTerm(b)
		switch op {
		case token.AND, token.LAND:
			return fromTerm(And(x, y))
		case token.OR, token.LOR:
			return fromTerm(Or(x, y))
		}
	case typeIsFloat(t):
		fa, oka := a.(float64)
		fb, okb := b.(float64)
		if oka && okb {
			switch op {
			case token.ADD:
				return fa + fb
			case token.SUB:
				return fa - fb
			case token.MUL:
				return fa * fb
			case token.QUO:
				return fa / fb
			case token.LSS:
				return fa < fb
			case token.LEQ:
				return fa <= fb
			case token.GTR:
				return fa > fb
			case token.GEQ:
				return fa >= fb
			}
		}
	}
	unsupported("binop %v on %T, %T (type %v)", op, a, b, t)
	return nil
}

// checkedInt attaches the overflow obligation of DESIGN 3.3: a symbolic
// arithmetic result must stay inside the Go type's range.
func (m *Machine) checkedInt(r *Term, t types.Type) Value {
	if r.IsConst() {
		return wrapInt(r.I, t)
	}
	// symbolic ints in this code base are lengths/counters; obligation is
	// checked lazily: int and int64 bounds
	lo, hi := int64(-1<<62), int64(1<<62)
	out := Or(Lt(r, IntT(lo)), Gt(r, IntT(hi)))
	if res := m.feasible(out); res != Unsat {
		// only a real issue if values this large are feasible; assume the
		// bound and record it.
		m.assume(Not(out))
		m.pathTags = append(m.pathTags, "assumed |int| < 2^62")
	}
	return r
}

func (m *Machine) not(v Value) Value {
	switch x := v.(type) {
	case bool:
		return !x
	case *Term:
		return fromTerm(Not(x))
	}
	panic(fmt.Sprintf("not %T", v))
}

// equal implements == for all comparable kinds.
func (m *Machine) equal(a, b Value, t types.Type) Value {
	a, b = forceLazy(a), forceLazy(b)
	switch x := a.(type) {
	case bool, int64, string, *Term:
		_ = x
		if fa, ok := a.(float64); ok {
			return fa == b.(float64)
		}
		return fromTerm(Eq(toTerm(a), toTerm(b)))
	case float64:
		return x == b.(float64)
	case Pointer:
		y := b.(Pointer)
		return x.C == y.C && samePath(x.Path, y.Path)
	case Slice:
		y := b.(Slice)
		// only comparison with nil is legal
		if y.C == nil {
			return x.C == nil
		}
		return x.C == nil && y.C == nil
	case MapRef:
		y := b.(MapRef)
		return x.M == y.M
	case *Closure:
		y, _ := b.(*Closure)
		return x == nil && y == nil || (x == y)
	case *ssa.Function:
		if y, ok := b.(*Closure); ok {
			return y == nil && false
		}
		return a == b
	case Iface:
		y := b.(Iface)
		if x.T == nil || y.T == nil {
			return x.T == nil && y.T == nil
		}
		if !types.Identical(x.T, y.T) {
			return false
		}
		return m.equal(x.V, y.V, x.T)
	case *Struct:
		y := b.(*Struct)
		st := t.Underlying().(*types.Struct)
		var acc Value = true
		for i := range x.F {
			acc = m.and(acc, m.equal(x.F[i], y.F[i], st.Field(i).Type()))
		}
		return acc
	case *Array:
		y := b.(*Array)
		et := t.Underlying().(*types.Array).Elem()
		var acc Value = true
		for i := range x.E {
			acc = m.and(acc, m.equal(x.E[i], y.E[i], et))
		}
		return acc
	case *Native:
		return a == b
	case *SymFloat:
		return a == b
	case nil:
		return b == nil
	}
	unsupported("equality on %T", a)
	return nil
}

func (m *Machine) and(a, b Value) Value { return fromTerm(And(toTerm(a), toTerm(b))) }
func (m *Machine) or(a, b Value) Value  { return fromTerm(Or(toTerm(a), toTerm(b))) }

func (m *Machine) unop(x *ssa.UnOp, v Value) Value {
	switch x.Op {
	case token.MUL:
		return v.(Pointer).load()
	case token.NOT:
		return m.not(v)
	case token.SUB:
		switch i := v.(type) {
		case int64:
			return wrapInt(-i, x.Type())
		case float64:
			return -i
		case *Term:
			return fromTerm(Neg(i))
		}
	case token.XOR:
		if i, ok := v.(int64); ok {
			return wrapInt(^i, x.Type())
		}
	}
	unsupported("unop %v on %T", x.Op, v)
	return nil
}

// ---------------------------------------------------------------------------
// conversions

func (m *Machine) convert(v Value, from, to types.Type) Value {
	fu, tu := from.Underlying(), to.Underlying()
	switch {
	case typeIsInt(from) && typeIsInt(to):
		switch i := v.(type) {
		case int64:
			return wrapInt(i, to)
		case *Term:
			return i
		}
	case typeIsInt(from) && typeIsString(to):
		// string(rune)
		return fromTerm(FromCode(toTerm(v)))
	case typeIsInt(from) && typeIsFloat(to):
		if i, ok := v.(int64); ok {
			return float64(i)
		}
	case typeIsFloat(from) && typeIsFloat(to):
		return v
	case typeIsFloat(from) && typeIsInt(to):
		if f, ok := v.(float64); ok {
			return int64(f)
		}
	case typeIsString(from) && typeIsString(to):
		return v
	}
	if ts, ok := tu.(*types.Slice); ok && typeIsString(from) {
		eb := ts.Elem().Underlying().(*types.Basic)
		if eb.Kind() == types.Int32 { // []rune(s)
			return m.stringToRunes(v)
		}
		if eb.Kind() == types.Uint8 { // []byte(s): opaque
			return Slice{C: m.newCell(&Native{Kind: "bytes", Msg: v}), Off: 0, Len: -1, Cap: -1}
		}
	}
	if fs, ok := fu.(*types.Slice); ok && typeIsString(to) {
		eb := fs.Elem().Underlying().(*types.Basic)
		s := v.(Slice)
		if eb.Kind() == types.Int32 { // string([]rune)
			var parts []*Term
			for _, e := range sliceElems(s) {
				parts = append(parts, FromCode(toTerm(e)))
			}
			return fromTerm(Concat(parts...))
		}
		if eb.Kind() == types.Uint8 {
			if s.C == nil {
				return ""
			}
			if n, ok := s.C.V.(*Native); ok && n.Kind == "bytes" {
				return n.Msg
			}
			var bs []byte
			for _, e := range sliceElems(s) {
				i, ok := e.(int64)
				if !ok {
					unsupported("string([]byte) with symbolic bytes")
				}
				bs = append(bs, byte(i))
			}
			return string(bs)
		}
	}
	if _, ok := tu.(*types.Pointer); ok {
		return v
	}
	unsupported("convert %v -> %v", from, to)
	return nil
}

// stringLen makes the length of a string concrete on this path (forking).
func (m *Machine) stringLen(v Value) int {
	v = forceLazy(v)
	switch s := v.(type) {
	case string:
		return len([]rune(s))
	case *Term:
		l := Len(s)
		return int(m.concretizeInt(fromTerm(l), 0, int64(m.Cfg.MaxStrLen), "length of a symbolic string"))
	}
	panic(fmt.Sprintf("stringLen %T", v))
}

func (m *Machine) stringToRunes(v Value) Value {
	n := m.stringLen(v)
	arr := &Array{E: make([]Value, n)}
	st := toTerm(v)
	for i := 0; i < n; i++ {
		arr.E[i] = fromTerm(ToCode(At(st, IntT(int64(i)))))
	}
	return Slice{C: m.newCell(arr), Off: 0, Len: n, Cap: n}
}

// ---------------------------------------------------------------------------
// indexing, slicing

func (m *Machine) concreteIndex(i Value, n int, what string) int {
	idx := m.concretizeInt(i, -1, int64(n), what)
	if idx < 0 || idx >= int64(n) {
		panic(goPanic{msg: fmt.Sprintf("index out of range [%d] with length %d", idx, n)})
	}
	return int(idx)
}

func (m *Machine) index(x, i Value, t types.Type) Value {
	switch a := x.(type) {
	case *Array:
		return a.E[m.concreteIndex(i, len(a.E), "array index")]
	case string, *Term:
		return m.stringIndex(x, i)
	}
	unsupported("index on %T", x)
	return nil
}

func (m *Machine) indexAddr(x, i Value) Value {
	switch a := x.(type) {
	case Slice:
		if a.C == nil {
			panic(goPanic{msg: "index out of range on nil slice"})
		}
		idx := m.concreteIndex(i, a.Len, "slice index")
		return Pointer{C: a.C, Path: []int{a.Off + idx}}
	case Pointer: // *array
		arr := a.load().(*Array)
		idx := m.concreteIndex(i, len(arr.E), "array index")
		return a.sub(idx)
	}
	unsupported("indexAddr on %T", x)
	return nil
}

// asciiGuard: byte-level operations on symbolic strings are exact only for
// ASCII content (DESIGN 3.4). The path condition must imply it.
var asciiRe = &Regex{Pattern: "ascii", SMT: `(re.* (re.range "\u{0}" "\u{7f}"))`}

// knownASCII: syntactically ASCII (constants, ASCII code variables, and
// concatenations / substrings of those).
func knownASCII(t *Term) bool {
	switch t.Op {
	case "const":
		for _, r := range t.S {
			if r > 127 {
				return false
			}
		}
		return true
	case "str.from_code":
		c := t.Args[0]
		return c.Op == "var" && c.Hi > 0 && c.Hi < 128
	case "str.++":
		for _, a := range t.Args {
			if !knownASCII(a) {
				return false
			}
		}
		return true
	case "str.substr", "str.at":
		return knownASCII(t.Args[0])
	}
	return false
}

func (m *Machine) asciiGuard(s *Term, what string) {
	if s.IsConst() || knownASCII(s) {
		return
	}
	g := &Term{Op: "in_re", Args: []*Term{s}, Sort: SBool, Re: asciiRe}
	if m.pcKeys[g.Key()] {
		return
	}
	if m.feasible(Not(g)) != Unsat {
		unsupported("ASCII-GUARD: byte operation %s on a string not known to be ASCII", what)
	}
	m.pcKeys[g.Key()] = true
}

func (m *Machine) lookup(x, k Value, commaOk bool, xt, rt types.Type) Value {
	if typeIsString(xt) {
		return m.stringIndex(x, k)
	}
	mr := x.(MapRef)
	vt := xt.Underlying().(*types.Map).Elem()
	idx := m.mapFind(mr, k)
	var val Value
	if idx >= 0 {
		val = mr.M.Vals[idx]
	} else {
		val = zero(vt)
	}
	if commaOk {
		return Tuple{val, idx >= 0}
	}
	return val
}

// stringIndex is s[i] (a byte).
func (m *Machine) stringIndex(x, k Value) Value {
	if cs, ok := x.(string); ok {
		if ci, ok := k.(int64); ok {
			if ci < 0 || ci >= int64(len(cs)) {
				panic(goPanic{msg: "string index out of range"})
			}
			return int64(cs[ci])
		}
	}
	st := toTerm(x)
	m.asciiGuard(st, "s[i]")
	it := toTerm(k)
	inb := And(Ge(it, IntT(0)), Lt(it, Len(st)))
	if !m.branch(fromTerm(inb)) {
		panic(goPanic{msg: "string index out of range"})
	}
	return fromTerm(ToCode(At(st, it)))
}

// mapFind returns the index of key k (forking on symbolic equality) or -1.
func (m *Machine) mapFind(mr MapRef, k Value) int {
	if mr.M == nil || len(mr.M.Keys) == 0 {
		return -1
	}
	// a lazily decomposed regexp capture used as a key is a symbolic string
	k = forceLazy(k)
	// concrete fast path
	allConcrete := !hasSym(k)
	if allConcrete {
		for _, kk := range mr.M.Keys {
			if hasSym(kk) {
				allConcrete = false
				break
			}
		}
	}
	if allConcrete {
		for i, kk := range mr.M.Keys {
			if m.concreteKeyEq(kk, k) {
				return i
			}
		}
		return -1
	}
	n := len(mr.M.Keys)
	conds := make([]*Term, n+1)
	var none []*Term
	for i, kk := range mr.M.Keys {
		conds[i] = toTerm(m.keyEq(kk, k))
		none = append(none, Not(conds[i]))
	}
	conds[n] = And(none...)
	alt := m.choose(n+1, true, func(i int) *Term { return conds[i] })
	if alt == n {
		return -1
	}
	return alt
}

// hasSym: does a (possibly aggregate) key contain a symbolic part?
func hasSym(v Value) bool {
	switch x := forceLazy(v).(type) {
	case *Term:
		return true
	case *Struct:
		for _, f := range x.F {
			if hasSym(f) {
				return true
			}
		}
	case *Array:
		for _, e := range x.E {
			if hasSym(e) {
				return true
			}
		}
	case Iface:
		return x.T != nil && hasSym(x.V)
	}
	return false
}

func (m *Machine) concreteKeyEq(a, b Value) bool {
	r := m.keyEq(a, b)
	bb, ok := r.(bool)
	if !ok {
		return false
	}
	return bb
}

func (m *Machine) keyEq(a, b Value) Value {
	a, b = forceLazy(a), forceLazy(b)
	switch x := a.(type) {
	case string, int64, bool, *Term:
		return fromTerm(Eq(toTerm(a), toTerm(b)))
	case Iface:
		y := b.(Iface)
		if x.T == nil || y.T == nil {
			return x.T == nil && y.T == nil
		}
		if !types.Identical(x.T, y.T) {
			return false
		}
		return m.keyEq(x.V, y.V)
	case *Struct:
		y := b.(*Struct)
		var acc Value = true
		for i := range x.F {
			acc = m.and(acc, m.keyEq(x.F[i], y.F[i]))
		}
		return acc
	case *Array:
		y := b.(*Array)
		var acc Value = true
		for i := range x.E {
			acc = m.and(acc, m.keyEq(x.E[i], y.E[i]))
		}
		return acc
	case Pointer:
		y := b.(Pointer)
		return x.C == y.C && samePath(x.Path, y.Path)
	}
	unsupported("map key of type %T", a)
	return nil
}

func (m *Machine) mapUpdate(mv, k, v Value) {
	mr := mv.(MapRef)
	if mr.M == nil {
		panic(goPanic{msg: "assignment to entry in nil map"})
	}
	k = forceLazy(k)
	idx := m.mapFind(mr, k)
	if idx >= 0 {
		mr.M.Vals[idx] = v
		return
	}
	mr.M.Keys = append(mr.M.Keys, k)
	mr.M.Vals = append(mr.M.Vals, v)
}

func (m *Machine) sliceOp(fr *frame, x *ssa.Slice) Value {
	v := m.get(fr, x.X)
	var lo, hi Value
	if x.Low != nil {
		lo = m.get(fr, x.Low)
	}
	if x.High != nil {
		hi = m.get(fr, x.High)
	}
	if typeIsString(x.X.Type()) {
		if cs, ok := v.(string); ok {
			l, h := int64(0), int64(len(cs))
			okc := true
			if lo != nil {
				l, okc = lo.(int64)
			}
			if hi != nil && okc {
				h, okc = hi.(int64)
			}
			if okc {
				if l < 0 || h < l || h > int64(len(cs)) {
					panic(goPanic{msg: "slice bounds out of range (string)"})
				}
				return cs[l:h]
			}
		}
		st := toTerm(v)
		if !(lo == nil && hi == nil) {
			m.asciiGuard(st, "s[i:j]")
		}
		var lt, ht *Term
		if lo == nil {
			lt = IntT(0)
		} else {
			lt = toTerm(lo)
		}
		if hi == nil {
			ht = Len(st)
		} else {
			ht = toTerm(hi)
		}
		ok := And(Ge(lt, IntT(0)), Le(lt, ht), Le(ht, Len(st)))
		if !m.branch(fromTerm(ok)) {
			panic(goPanic{msg: "slice bounds out of range (string)"})
		}
		return fromTerm(Substr(st, lt, Sub(ht, lt)))
	}
	var s Slice
	switch a := v.(type) {
	case Slice:
		s = a
	case Pointer: // *array
		arr := a.load().(*Array)
		if len(a.Path) != 0 {
			unsupported("slicing an array that is not a whole cell")
		}
		s = Slice{C: a.C, Off: 0, Len: len(arr.E), Cap: len(arr.E)}
	default:
		unsupported("slice of %T", v)
	}
	if s.Len < 0 {
		unsupported("slicing an opaque []byte")
	}
	l, h, mx := 0, s.Len, s.Cap
	if lo != nil {
		l = int(m.concretizeInt(lo, 0, int64(s.Cap), "slice low bound"))
	}
	if hi != nil {
		h = int(m.concretizeInt(hi, -1, int64(s.Cap)+1, "slice high bound"))
	}
	if x.Max != nil {
		mx = int(m.concretizeInt(m.get(fr, x.Max), 0, int64(s.Cap), "slice max"))
	}
	if l < 0 || h < l || h > s.Cap || mx > s.Cap || h > mx {
		panic(goPanic{msg: fmt.Sprintf("slice bounds out of range [%d:%d] with capacity %d", l, h, s.Cap)})
	}
	if s.C == nil {
		return Slice{}
	}
	return Slice{C: s.C, Off: s.Off + l, Len: h - l, Cap: mx - l}
}

// ---------------------------------------------------------------------------
// iteration

type iterator struct {
	// map
	keys, vals []Value
	// string
	str   *Term
	isStr bool
	pos   int
}

func permutations(n int) [][]int {
	if n == 0 {
		return [][]int{{}}
	}
	var res [][]int
	var rec func(cur []int, used []bool)
	rec = func(cur []int, used []bool) {
		if len(cur) == n {
			res = append(res, append([]int(nil), cur...))
			return
		}
		for i := 0; i < n; i++ {
			if !used[i] {
				used[i] = true
				rec(append(cur, i), used)
				used[i] = false
			}
		}
	}
	rec(nil, make([]bool, n))
	return res
}

// RangeSiteKey identifies a range-over-map statement.
func RangeSiteKey(x *ssa.Range) string {
	fn := x.Parent()
	name := fn.String()
	if fn.Origin() != nil {
		name = fn.Origin().String()
	}
	return name + "@" + fn.Prog.Fset.Position(x.Pos()).String()
}

func (m *Machine) rangeIter(x Value, t types.Type, site *ssa.Range) Value {
	if typeIsString(t) {
		return &iterator{isStr: true, str: toTerm(x)}
	}
	mr := x.(MapRef)
	it := &iterator{}
	if mr.M == nil {
		return it
	}
	n := len(mr.M.Keys)
	order := make([]int, n)
	for i := range order {
		order[i] = i
	}
	if m.Cfg.MapPerms && n > 1 && site != nil && (strings.Contains(m.Prog.Fset.Position(site.Pos()).Filename, "zz_vf_") || strings.Contains(m.Prog.Fset.Position(site.Pos()).Filename, "/internal/zzvfskel/")) {
		// harness code: its own map loops are order-insensitive by construction
	} else if m.Cfg.MapPerms && n > 1 && site != nil && !m.Cfg.PermsInInit && strings.HasPrefix(site.Parent().Name(), "init") {
		// package initialisers are permuted only by the harness dedicated to them
	} else if m.Cfg.MapPerms && n > 1 {
		if site != nil {
			if m.Res.RangeSites == nil {
				m.Res.RangeSites = map[string]int{}
			}
			m.Res.RangeSites[RangeSiteKey(site)]++
		}
		if n > 4 {
			unsupported("UNWIND-INSUFFICIENT: map with %d entries under permutation mode", n)
		}
		perms := permutations(n)
		alt := m.choose(len(perms), true, func(int) *Term { return TrueT })
		order = perms[alt]
		m.pathTags = append(m.pathTags, fmt.Sprintf("map-order:%v", order))
	}
	for _, i := range order {
		it.keys = append(it.keys, mr.M.Keys[i])
		it.vals = append(it.vals, mr.M.Vals[i])
	}
	return it
}

func (m *Machine) next(it *iterator, x *ssa.Next) Value {
	if it.isStr {
		if it.str.IsConst() {
			r := []rune(it.str.S)
			if it.pos >= len(r) {
				return Tuple{false, int64(0), int64(0)}
			}
			// byte offset of rune it.pos
			off := len(string(r[:it.pos]))
			c := r[it.pos]
			it.pos++
			return Tuple{true, int64(off), int64(c)}
		}
		more := Lt(IntT(int64(it.pos)), Len(it.str))
		if it.pos > m.Cfg.MaxStrLen+1 {
			m.Res.UnwindChecks++
			if m.feasible(more) != Unsat {
				unsupported("UNWIND-INSUFFICIENT: range over string longer than %d", m.Cfg.MaxStrLen)
			}
		}
		if !m.branch(fromTerm(more)) {
			return Tuple{false, int64(0), int64(0)}
		}
		c := ToCode(At(it.str, IntT(int64(it.pos))))
		i := it.pos
		it.pos++
		// the index is the rune index; equals the byte offset only on ASCII
		// prefixes (callers in the repo ignore it).
		return Tuple{true, int64(i), fromTerm(c)}
	}
	if it.pos >= len(it.keys) {
		return Tuple{false, nil, nil}
	}
	k, v := it.keys[it.pos], it.vals[it.pos]
	it.pos++
	return Tuple{true, k, v}
}

// ---------------------------------------------------------------------------
// type assertions

func (m *Machine) typeAssert(v Value, x *ssa.TypeAssert) Value {
	i := v.(Iface)
	ok := false
	if i.T != nil {
		if types.IsInterface(x.AssertedType) {
			ok = types.Implements(i.T, x.AssertedType.Underlying().(*types.Interface))
			if _, isH := i.V.(*HarnessObj); isH {
				ok = true
			}
		} else {
			ok = types.Identical(i.T, x.AssertedType)
		}
	}
	var res Value
	if ok {
		if types.IsInterface(x.AssertedType) {
			res = i
		} else {
			res = i.V
		}
	} else {
		res = zero(x.AssertedType)
	}
	if x.CommaOk {
		return Tuple{res, ok}
	}
	if !ok {
		tn := "nil"
		if i.T != nil {
			tn = i.T.String()
		}
		panic(goPanic{msg: fmt.Sprintf("interface conversion: %s is not %s", tn, x.AssertedType)})
	}
	return res
}

// ---------------------------------------------------------------------------
// builtins

func (m *Machine) builtin(b *ssa.Builtin, args []Value, c *ssa.CallCommon) Value {
	switch b.Name() {
	case "len":
		switch x := args[0].(type) {
		case string:
			return int64(len(x))
		case *Term:
			return fromTerm(BLen(x))
		case Slice:
			if x.Len < 0 {
				n := x.C.V.(*Native)
				return fromTerm(BLen(toTerm(n.Msg)))
			}
			return int64(x.Len)
		case MapRef:
			if x.M == nil {
				return int64(0)
			}
			return int64(len(x.M.Keys))
		case *Array:
			return int64(len(x.E))
		case Pointer:
			return int64(len(x.load().(*Array).E))
		}
	case "cap":
		switch x := args[0].(type) {
		case Slice:
			return int64(x.Cap)
		}
	case "append":
		s := args[0].(Slice)
		if _, isStr := args[1].(string); isStr {
			unsupported("append([]byte, string...)")
		}
		t := args[1].(Slice)
		if t.Len == 0 {
			return s
		}
		if s.Len < 0 || t.Len < 0 {
			unsupported("append on opaque []byte")
		}
		add := sliceElems(t)
		if s.C != nil && s.Len+len(add) <= s.Cap {
			arr := s.C.V.(*Array)
			ne := append([]Value(nil), arr.E...)
			copy(ne[s.Off+s.Len:], add)
			s.C.V = &Array{E: ne}
			return Slice{C: s.C, Off: s.Off, Len: s.Len + len(add), Cap: s.Cap}
		}
		n := s.Len + len(add)
		ne := make([]Value, 0, n)
		ne = append(ne, sliceElems(s)...)
		ne = append(ne, add...)
		return Slice{C: m.newCell(&Array{E: ne}), Off: 0, Len: n, Cap: n}
	case "copy":
		d := args[0].(Slice)
		s, ok := args[1].(Slice)
		if !ok {
			unsupported("copy from string")
		}
		n := d.Len
		if s.Len < n {
			n = s.Len
		}
		if n > 0 {
			src := append([]Value(nil), sliceElems(s)[:n]...)
			arr := d.C.V.(*Array)
			ne := append([]Value(nil), arr.E...)
			copy(ne[d.Off:], src)
			d.C.V = &Array{E: ne}
		}
		return int64(n)
	case "delete":
		mr := args[0].(MapRef)
		idx := m.mapFind(mr, args[1])
		if idx >= 0 {
			mr.M.Keys = append(append([]Value(nil), mr.M.Keys[:idx]...), mr.M.Keys[idx+1:]...)
			mr.M.Vals = append(append([]Value(nil), mr.M.Vals[:idx]...), mr.M.Vals[idx+1:]...)
		}
		return nil
	case "ssa:wrapnilchk":
		if isNilPointer(args[0]) {
			panic(goPanic{msg: "value method called using nil pointer"})
		}
		return args[0]
	case "min", "max":
		a, b := args[0], args[1]
		ia, oka := a.(int64)
		ib, okb := b.(int64)
		if oka && okb {
			if (b.(int64) < ia) == (bName(c) == "min") {
				return ib
			}
			return ia
		}
	case "print", "println":
		return nil
	}
	unsupported("builtin %s on %T", b.Name(), args[0])
	return nil
}

func bName(c *ssa.CallCommon) string {
	if c == nil {
		return ""
	}
	return c.Value.Name()
}

// sortedFuncs lists encountered functions for evidence.
func (r *HarnessResult) SortedFunctions() []string {
	var fs []string
	for f := range r.Functions {
		fs = append(fs, f)
	}
	sort.Strings(fs)
	return fs
}
