package engine

import (
	"fmt"
	"regexp"
	"testing"
)

// The capture decomposition (with leftmost-first preferences) must agree with
// Go's regexp on concrete subjects.
func TestDecompositionAgainstGo(t *testing.T) {
	const (
		BaseImport = `[A-Za-z](\/?[A-Z-a-z0-9._-])*`
		Import     = `((` + BaseImport + `)|("` + BaseImport + `")|"\.")`
		GoToken    = `[A-Za-z][A-Za-z0-9_]*`
		YamlToken  = `[A-Za-z]((\.|-|_)?[A-Za-z0-9])*`
		GoFunc     = `((?P<import>` + Import + `)\.)?(?P<fn>` + GoToken + `)`
		ServiceType  = `(?P<ptr>\*)?` + `((?P<import>` + Import + `)\.)?(?P<type>` + GoToken + `)`
		ServiceValue = `((?P<v1>(?P<ptr>\&)?((?P<import>` + Import + `)\.)?(?P<value>` + GoToken + `(\.` + GoToken + `)*` + `))` +
			`|(?P<v2>(?P<ptr2>\&)?((?P<import2>` + Import + `)\.)?(?P<struct2>` + GoToken + `)\{\}))`
	)
	az := func(p string) string { return `\A(` + p + `)\z` }
	cases := map[string][]string{
		az(GoFunc):       {"F", "a.F", "a.b.F", `"a/b".F`, `".".F`, "a/b.c.F", "a-b.F"},
		az(ServiceType):  {"T", "*T", "a.T", "*a.b.T", `*"x/y".T`, `".".T`},
		az(ServiceValue): {"V", "&V", "a.V", "a.b.C", "a.b.c.D", `"a.b".C.D`, `&"x/y".V.F`, "S{}", "&S{}", "a.S{}", "a.b.S{}", `"a".S{}`, `".".V.W`, "a/b.c.D"},
		az(`!value\s+((?P<argval>` + ServiceValue + `))`): {"!value  a.b.C", "!value\t&S{}"},
		az(`(?P<fn>` + GoToken + `)\((?P<params>.*)\)`):   {"f()", "f(a)", "f(()", "env(\"A\", \"b)\")"},
		az(`@(?P<service>` + YamlToken + `)`):               {"@a", "@a.b-c"},
	}
	s := NewSolver(20000)
	defer s.Close()
	for pat, subjects := range cases {
		re := regexp.MustCompile(pat)
		for _, subj := range subjects {
			want := re.FindStringSubmatch(subj)
			if want == nil {
				t.Fatalf("sample %q does not match %q", subj, pat)
			}
			for i, name := range re.SubexpNames() {
				if name == "" {
					continue
				}
				if len(pat) > 400 && name != "argval" {
					continue // the resolver only reads argval of the !value expression
				}
				n := 0
				d, err := DecomposeBounded(pat, StrT(subj), func(p string, so Sort) *Term {
					n++
					return VarT(fmt.Sprintf("t_%s_%d", sanitizeName(p), n), so)
				}, map[string]bool{name: true}, 16)
				if err != nil {
					t.Fatalf("%q: %v", pat, err)
				}
				if r := s.Check([]*Term{d.Constraint}); r != Sat {
					t.Errorf("%q on %q capture %s: decomposition is %v, want sat", pat, subj, name, r)
					continue
				}
				if r := s.Check([]*Term{d.Constraint, Not(Eq(d.Captures[name], StrT(want[i])))}); r != Unsat {
					_, m := s.CheckModel([]*Term{d.Constraint, Not(Eq(d.Captures[name], StrT(want[i])))}, []*Term{d.Captures[name]})
					t.Errorf("%q on %q capture %s: Go gives %q, decomposition also allows %q (%v)", pat, subj, name, want[i], m[d.Captures[name].Key()].S, r)
				}
			}
		}
	}
}
