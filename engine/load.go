package engine

import (
	"fmt"
	"os"
	"path/filepath"
	"strings"

	"golang.org/x/tools/go/packages"
	"golang.org/x/tools/go/ssa"
	"golang.org/x/tools/go/ssa/ssautil"
)

// Program is the SSA of /repo's working tree plus overlaid harness files.
type Program struct {
	Prog *ssa.Program
	Pkgs map[string]*ssa.Package // by import path
	Raw  []*packages.Package
}

// Load builds SSA for all packages of the repository with the given overlay
// (absolute path -> content).
func Load(repo string, overlay map[string][]byte) (*Program, error) {
	env := append(os.Environ(), "GOFLAGS=-mod=mod", "GOPROXY=off", "GOSUMDB=off", "GOTOOLCHAIN=local")
	cfg := &packages.Config{Mode: packages.LoadAllSyntax, Dir: repo, Env: env, Overlay: overlay}
	patterns := []string{"./..."}
	seen := map[string]bool{}
	for f := range overlay {
		// packages that exist only in the overlay are not found by ./...
		d := filepath.Dir(f)
		if _, err := os.Stat(d); err != nil && !seen[d] {
			seen[d] = true
			if rel, err := filepath.Rel(repo, d); err == nil {
				patterns = append(patterns, "./"+rel)
			}
		}
	}
	pkgs, err := packages.Load(cfg, patterns...)
	if err != nil {
		return nil, err
	}
	var errs []string
	packages.Visit(pkgs, nil, func(p *packages.Package) {
		for _, e := range p.Errors {
			errs = append(errs, e.Error())
		}
	})
	if len(errs) > 0 {
		if len(errs) > 10 {
			errs = errs[:10]
		}
		return nil, fmt.Errorf("loading %s: %s", repo, strings.Join(errs, "; "))
	}
	prog, _ := ssautil.AllPackages(pkgs, ssa.InstantiateGenerics)
	prog.Build()
	p := &Program{Prog: prog, Pkgs: map[string]*ssa.Package{}, Raw: pkgs}
	for _, sp := range prog.AllPackages() {
		p.Pkgs[sp.Pkg.Path()] = sp
	}
	return p, nil
}

// Func finds a package-level function.
func (p *Program) Func(pkgPath, name string) *ssa.Function {
	sp := p.Pkgs[pkgPath]
	if sp == nil {
		return nil
	}
	return sp.Func(name)
}

// HarnessOverlay maps every file under harnessRoot/<rel>/zz_vf_*.go to
// repo/<rel>/..., and adds the API shim (generated from apiTemplate with the
// right package clause) to each such directory.
func HarnessOverlay(repo, harnessRoot string) (map[string][]byte, error) {
	ov := map[string][]byte{}
	api, err := os.ReadFile(filepath.Join(harnessRoot, "_api", "zz_vf_api.go.tmpl"))
	if err != nil {
		return nil, err
	}
	dirs := map[string]string{}
	err = filepath.Walk(harnessRoot, func(path string, info os.FileInfo, err error) error {
		if err != nil {
			return err
		}
		if info.IsDir() || !strings.HasPrefix(info.Name(), "zz_vf_") || !strings.HasSuffix(info.Name(), ".go") {
			return nil
		}
		rel, _ := filepath.Rel(harnessRoot, path)
		if strings.HasPrefix(rel, "_") {
			return nil
		}
		b, err := os.ReadFile(path)
		if err != nil {
			return err
		}
		ov[filepath.Join(repo, rel)] = b
		dirs[filepath.Dir(rel)] = packageClause(b)
		return nil
	})
	if err != nil {
		return nil, err
	}
	for d, pkg := range dirs {
		ov[filepath.Join(repo, d, "zz_vf_api.go")] = []byte(strings.Replace(string(api), "package PKG", "package "+pkg, 1))
	}
	// the skeleton-extraction package, shared by the engine and the native API
	if b, err := os.ReadFile(filepath.Join(filepath.Dir(harnessRoot), "skel", "skel.go")); err == nil {
		ov[filepath.Join(repo, "internal", "zzvfskel", "skel.go")] = b
	}
	return ov, nil
}

func packageClause(src []byte) string {
	for _, l := range strings.Split(string(src), "\n") {
		l = strings.TrimSpace(l)
		if strings.HasPrefix(l, "package ") {
			return strings.TrimSpace(strings.TrimPrefix(l, "package "))
		}
	}
	return "main"
}
