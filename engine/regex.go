package engine

import (
	"fmt"
	"regexp"
	"regexp/syntax"
	"strings"
	"sync"
)

// maxSMTChar is the largest code point of SMT-LIB's String theory.
const maxSMTChar = 0x2FFFF

var (
	regexCacheMu sync.Mutex
	regexCache   = map[string]*Regex{}
)

// CompileRegex translates a Go (Perl-syntax) regular expression to an SMT
// RegLan denoting exactly the strings on which MatchString is true.
func CompileRegex(pattern string) (*Regex, error) {
	regexCacheMu.Lock()
	defer regexCacheMu.Unlock()
	if r, ok := regexCache[pattern]; ok {
		return r, nil
	}
	goRe, err := regexp.Compile(pattern)
	if err != nil {
		return nil, err
	}
	tree, err := syntax.Parse(pattern, syntax.Perl)
	if err != nil {
		return nil, err
	}
	smt, err := reMatchLang(tree)
	if err != nil {
		return nil, fmt.Errorf("regex %q: %w", pattern, err)
	}
	r := &Regex{Pattern: pattern, Go: goRe, SMT: smt}
	regexCache[pattern] = r
	return r, nil
}

// reMatchLang: language of subjects s such that the (unanchored) regex finds a
// match in s. Leading \A and trailing \z at the top-level concatenation are
// honoured; a missing anchor pads with re.all.
func reMatchLang(t *syntax.Regexp) (string, error) {
	begin, end, inner := stripAnchors(t)
	body, err := reLang(inner)
	if err != nil {
		return "", err
	}
	parts := []string{}
	if !begin {
		parts = append(parts, "re.all")
	}
	parts = append(parts, body)
	if !end {
		parts = append(parts, "re.all")
	}
	if len(parts) == 1 {
		return parts[0], nil
	}
	return "(re.++ " + strings.Join(parts, " ") + ")", nil
}

func stripAnchors(t *syntax.Regexp) (begin, end bool, inner *syntax.Regexp) {
	if t.Op == syntax.OpConcat {
		subs := t.Sub
		if len(subs) > 0 && subs[0].Op == syntax.OpBeginText {
			begin = true
			subs = subs[1:]
		}
		if len(subs) > 0 && subs[len(subs)-1].Op == syntax.OpEndText {
			end = true
			subs = subs[:len(subs)-1]
		}
		cp := *t
		cp.Sub = subs
		return begin, end, &cp
	}
	return false, false, t
}

func reChar(r rune) string {
	return fmt.Sprintf(`(str.to_re %s)`, smtStringLit(string(r)))
}

func reRange(lo, hi rune) string {
	if lo > maxSMTChar {
		return "re.none"
	}
	if hi > maxSMTChar {
		hi = maxSMTChar
	}
	if lo == hi {
		return reChar(lo)
	}
	return fmt.Sprintf(`(re.range %s %s)`, smtStringLit(string(lo)), smtStringLit(string(hi)))
}

func reLang(t *syntax.Regexp) (string, error) {
	switch t.Op {
	case syntax.OpEmptyMatch:
		return `(str.to_re "")`, nil
	case syntax.OpNoMatch:
		return "re.none", nil
	case syntax.OpLiteral:
		if t.Flags&syntax.FoldCase != 0 {
			return "", fmt.Errorf("case folding unsupported")
		}
		return "(str.to_re " + smtStringLit(string(t.Rune)) + ")", nil
	case syntax.OpCharClass:
		var alts []string
		for i := 0; i+1 < len(t.Rune); i += 2 {
			alts = append(alts, reRange(t.Rune[i], t.Rune[i+1]))
		}
		if len(alts) == 0 {
			return "re.none", nil
		}
		if len(alts) == 1 {
			return alts[0], nil
		}
		return "(re.union " + strings.Join(alts, " ") + ")", nil
	case syntax.OpAnyCharNotNL:
		return `(re.union (re.range "\u{0}" "\u{9}") (re.range "\u{b}" "\u{2ffff}"))`, nil
	case syntax.OpAnyChar:
		return "re.allchar", nil
	case syntax.OpCapture:
		return reLang(t.Sub[0])
	case syntax.OpStar, syntax.OpPlus, syntax.OpQuest:
		s, err := reLang(t.Sub[0])
		if err != nil {
			return "", err
		}
		switch t.Op {
		case syntax.OpStar:
			return "(re.* " + s + ")", nil
		case syntax.OpPlus:
			return "(re.+ " + s + ")", nil
		}
		return "(re.opt " + s + ")", nil
	case syntax.OpRepeat:
		s, err := reLang(t.Sub[0])
		if err != nil {
			return "", err
		}
		if t.Max < 0 {
			return fmt.Sprintf("(re.++ ((_ re.^ %d) %s) (re.* %s))", t.Min, s, s), nil
		}
		return fmt.Sprintf("((_ re.loop %d %d) %s)", t.Min, t.Max, s), nil
	case syntax.OpConcat, syntax.OpAlternate:
		var subs []string
		for _, c := range t.Sub {
			s, err := reLang(c)
			if err != nil {
				return "", err
			}
			subs = append(subs, s)
		}
		if len(subs) == 0 {
			return `(str.to_re "")`, nil
		}
		if len(subs) == 1 {
			return subs[0], nil
		}
		if t.Op == syntax.OpConcat {
			return "(re.++ " + strings.Join(subs, " ") + ")", nil
		}
		return "(re.union " + strings.Join(subs, " ") + ")", nil
	}
	return "", fmt.Errorf("unsupported regex construct %v in %q", t.Op, t.String())
}

// ---------------------------------------------------------------------------
// Named captures by existential decomposition (DESIGN 3.5).

// hasNamedCapture reports whether t contains a named capture group.
func hasNamedCapture(t *syntax.Regexp) bool {
	if t.Op == syntax.OpCapture && t.Name != "" {
		return true
	}
	for _, s := range t.Sub {
		if hasNamedCapture(s) {
			return true
		}
	}
	return false
}

// Decomp is one existential decomposition of a subject string along the spine
// of a regex: constraints plus the capture terms.
type Decomp struct {
	Constraint *Term
	Captures   map[string]*Term
	Fresh      []*Term // fresh variables introduced
	Munch      []*Term // remaining-subject terms that must not be longer than Bound
	Bound      int
}

type decomposer struct {
	fresh  func(prefix string, s Sort) *Term
	caps   map[string]*Term
	vars   []*Term
	err    error
	wanted map[string]bool // nil: every named capture
	bound  int             // length bound used by the maximal-munch constraints
	munch  []*Term         // remaining-subject terms whose length must be <= bound (obligations)
}

// hasWanted reports whether t contains a capture the decomposition must expose.
func (d *decomposer) hasWanted(t *syntax.Regexp) bool {
	if t.Op == syntax.OpCapture && t.Name != "" && (d.wanted == nil || d.wanted[t.Name]) {
		return true
	}
	for _, s := range t.Sub {
		if d.hasWanted(s) {
			return true
		}
	}
	return false
}

// decompose returns a constraint under which `subject` is matched by t, with
// named captures bound in d.caps. present=false callers bind captures to "".
// inLang: subject ∈ L(re) for a RegLan text.
func inLang(subject *Term, smt string) *Term {
	if subject.IsConst() {
		// decide natively when possible is not available for raw RegLan; keep symbolic
	}
	return &Term{Op: "in_re", Args: []*Term{subject}, Sort: SBool, Re: &Regex{Pattern: "cont", SMT: smt}}
}

func reConcat(parts ...string) string {
	var ps []string
	for _, p := range parts {
		if p != "" && p != `(str.to_re "")` {
			ps = append(ps, p)
		}
	}
	switch len(ps) {
	case 0:
		return `(str.to_re "")`
	case 1:
		return ps[0]
	}
	return "(re.++ " + strings.Join(ps, " ") + ")"
}

// fixedWidth reports whether every string of L(t) has the same length.
func fixedWidth(t *syntax.Regexp) bool {
	switch t.Op {
	case syntax.OpLiteral, syntax.OpCharClass, syntax.OpAnyChar, syntax.OpAnyCharNotNL, syntax.OpEmptyMatch, syntax.OpBeginText, syntax.OpEndText:
		return true
	case syntax.OpCapture:
		return fixedWidth(t.Sub[0])
	case syntax.OpConcat:
		for _, c := range t.Sub {
			if !fixedWidth(c) {
				return false
			}
		}
		return true
	case syntax.OpRepeat:
		return t.Min == t.Max && fixedWidth(t.Sub[0])
	}
	return false
}

// greedy: no non-greedy operator inside.
func greedy(t *syntax.Regexp) bool {
	if t.Flags&syntax.NonGreedy != 0 {
		return false
	}
	for _, c := range t.Sub {
		if !greedy(c) {
			return false
		}
	}
	return true
}

// decompose returns a constraint under which `subject` is matched by t, with
// named captures bound in d.caps. contRe / contSubj describe what follows t
// in the whole (fully anchored) pattern: the regular language of the
// continuation and the term of the remaining subject. They are used to encode
// Go's leftmost-first preferences (DESIGN 3.5): an optional group is absent
// only if no match with the group present exists, an alternative is taken only
// if no earlier one leads to a match, and a greedy variable-width part takes
// the longest prefix that still lets the continuation match.
func (d *decomposer) decompose(t *syntax.Regexp, subject *Term, contRe string, contSubj *Term) *Term {
	return d.decomposeF(t, subject, contRe, contSubj, false)
}

// mayContain reports whether some string of L(t) contains rune r (conservative).
func mayContain(t *syntax.Regexp, r rune) bool {
	switch t.Op {
	case syntax.OpLiteral:
		for _, x := range t.Rune {
			if x == r {
				return true
			}
		}
		return false
	case syntax.OpCharClass:
		for i := 0; i+1 < len(t.Rune); i += 2 {
			if t.Rune[i] <= r && r <= t.Rune[i+1] {
				return true
			}
		}
		return false
	case syntax.OpAnyChar:
		return true
	case syntax.OpAnyCharNotNL:
		return r != '\n'
	case syntax.OpEmptyMatch, syntax.OpBeginText, syntax.OpEndText, syntax.OpNoMatch:
		return false
	}
	for _, c := range t.Sub {
		if mayContain(c, r) {
			return true
		}
	}
	return len(t.Sub) == 0
}

// force: decompose structurally even without a wanted capture inside (used
// for the parts that precede a wanted capture, whose own preferences decide
// where the capture starts).
func (d *decomposer) decomposeF(t *syntax.Regexp, subject *Term, contRe string, contSubj *Term, force bool) *Term {
	structural := t.Op == syntax.OpCapture || t.Op == syntax.OpConcat || t.Op == syntax.OpAlternate || t.Op == syntax.OpQuest
	if !d.hasWanted(t) && !(force && structural && !fixedWidth(t)) {
		smt, err := reLang(t)
		if err != nil {
			d.err = err
			return FalseT
		}
		re := &Regex{Pattern: t.String(), SMT: smt}
		if subject.IsConst() {
			g, err := regexp.Compile(`\A(?:` + t.String() + `)\z`)
			if err != nil {
				d.err = err
				return FalseT
			}
			return BoolT(g.MatchString(subject.S))
		}
		return &Term{Op: "in_re", Args: []*Term{subject}, Sort: SBool, Re: re}
	}
	if !greedy(t) {
		d.err = fmt.Errorf("non-greedy operators around named captures are not supported")
		return FalseT
	}
	switch t.Op {
	case syntax.OpCapture:
		wantedHere := t.Name != "" && (d.wanted == nil || d.wanted[t.Name])
		// the extent of a wanted capture is decided by the preferences inside it
		// (nothing to decide if it extends to the end of the subject)
		c := d.decomposeF(t.Sub[0], subject, contRe, contSubj, force || (wantedHere && contRe != `(str.to_re "")`))
		if wantedHere {
			if _, dup := d.caps[t.Name]; dup {
				d.err = fmt.Errorf("duplicate capture name %q", t.Name)
			}
			d.caps[t.Name] = subject
		}
		return c
	case syntax.OpConcat:
		var subs []*syntax.Regexp
		for _, sub := range t.Sub {
			if sub.Op == syntax.OpBeginText || sub.Op == syntax.OpEndText {
				continue
			}
			subs = append(subs, sub)
		}
		parts := make([]*Term, len(subs))
		langs := make([]string, len(subs))
		for i, sub := range subs {
			l, err := reLang(sub)
			if err != nil {
				d.err = err
				return FalseT
			}
			langs[i] = l
			if sub.Op == syntax.OpLiteral && sub.Flags&syntax.FoldCase == 0 {
				parts[i] = StrT(string(sub.Rune))
				continue
			}
			v := d.fresh("re", SString)
			d.vars = append(d.vars, v)
			parts[i] = v
		}
		lastWanted := -1
		for i, sub := range subs {
			if d.hasWanted(sub) {
				lastWanted = i
			}
		}
		if force {
			lastWanted = len(subs)
		}
		var cs []*Term
		for i, sub := range subs {
			kRe := reConcat(append(append([]string{}, langs[i+1:]...), contRe)...)
			kSubj := Concat(append(append([]*Term{}, parts[i+1:]...), contSubj)...)
			if !parts[i].IsConst() || sub.Op != syntax.OpLiteral {
				cs = append(cs, d.decomposeF(sub, parts[i], kRe, kSubj, force || i < lastWanted))
			}
			// a part whose end is marked by a literal that cannot occur inside it needs no look-ahead
			delimited := false
			if i+1 < len(subs) && subs[i+1].Op == syntax.OpLiteral && len(subs[i+1].Rune) > 0 && !mayContain(sub, subs[i+1].Rune[0]) {
				delimited = true
			}
			inner := sub
			for inner.Op == syntax.OpCapture {
				inner = inner.Sub[0]
			}
			// maximal munch for a greedy variable-width part that is followed by something
			if !fixedWidth(sub) && !delimited && i <= lastWanted && (i+1 < len(subs) || contRe != `(str.to_re "")`) && inner.Op != syntax.OpQuest && inner.Op != syntax.OpAlternate && inner.Op != syntax.OpConcat {
				if inner.Op == syntax.OpStar || inner.Op == syntax.OpPlus {
					// a trailing loop T*: after any match the residual language is T*, so
					// "no longer match lets the continuation succeed" is one regular
					// constraint on the remaining subject: it is not in T+ · K
					tl, err := reLang(inner.Sub[0])
					if err != nil {
						d.err = err
						return FalseT
					}
					cs = append(cs, Not(inLang(kSubj, reConcat("(re.+ "+tl+")", kRe))))
				} else {
					d.munch = append(d.munch, kSubj)
					for p := 1; p <= d.bound; p++ {
						ext := Concat(parts[i], Substr(kSubj, IntT(0), IntT(int64(p))))
						rest := Substr(kSubj, IntT(int64(p)), Sub(Len(kSubj), IntT(int64(p))))
						cs = append(cs, Not(And(Le(IntT(int64(p)), Len(kSubj)), inLang(ext, langs[i]), inLang(rest, kRe))))
					}
				}
			}
		}
		cs = append(cs, Eq(subject, Concat(parts...)))
		return And(cs...)
	case syntax.OpAlternate:
		// captures of alternatives not taken are "".
		var alts []*Term
		names := map[string]bool{}
		type altRes struct {
			c    *Term
			caps map[string]*Term
		}
		var rs []altRes
		var langs []string
		for _, sub := range t.Sub {
			sd := &decomposer{fresh: d.fresh, caps: map[string]*Term{}, wanted: d.wanted, bound: d.bound}
			c := sd.decomposeF(sub, subject, contRe, contSubj, force)
			if sd.err != nil {
				d.err = sd.err
			}
			d.vars = append(d.vars, sd.vars...)
			d.munch = append(d.munch, sd.munch...)
			for n := range sd.caps {
				names[n] = true
			}
			rs = append(rs, altRes{c, sd.caps})
			l, err := reLang(sub)
			if err != nil {
				d.err = err
			}
			langs = append(langs, l)
		}
		sel := d.fresh("alt", SInt)
		d.vars = append(d.vars, sel)
		outs := map[string]*Term{}
		for n := range names {
			v := d.fresh("cap_"+n, SString)
			d.vars = append(d.vars, v)
			outs[n] = v
			d.caps[n] = v
		}
		whole := Concat(subject, contSubj)
		for i, r := range rs {
			conj := []*Term{Eq(sel, IntT(int64(i))), r.c}
			// leftmost-first: no earlier alternative leads to a match
			for j := 0; j < i; j++ {
				conj = append(conj, Not(inLang(whole, reConcat(langs[j], contRe))))
			}
			for n := range names {
				if ct, ok := r.caps[n]; ok {
					conj = append(conj, Eq(outs[n], ct))
				} else {
					conj = append(conj, Eq(outs[n], StrT("")))
				}
			}
			alts = append(alts, And(conj...))
		}
		return Or(alts...)
	case syntax.OpQuest:
		sd := &decomposer{fresh: d.fresh, caps: map[string]*Term{}, wanted: d.wanted, bound: d.bound}
		c := sd.decomposeF(t.Sub[0], subject, contRe, contSubj, force)
		if sd.err != nil {
			d.err = sd.err
		}
		d.vars = append(d.vars, sd.vars...)
		d.munch = append(d.munch, sd.munch...)
		present := d.fresh("opt", SBool)
		d.vars = append(d.vars, present)
		inner, err := reLang(t.Sub[0])
		if err != nil {
			d.err = err
		}
		conjP := []*Term{present, c}
		// greedy ?: absent only if no match with the group present exists
		conjA := []*Term{Not(present), Eq(subject, StrT("")), Not(inLang(contSubj, reConcat(inner, contRe)))}
		for n, ct := range sd.caps {
			v := d.fresh("cap_"+n, SString)
			d.vars = append(d.vars, v)
			d.caps[n] = v
			conjP = append(conjP, Eq(v, ct))
			conjA = append(conjA, Eq(v, StrT("")))
		}
		return Or(And(conjP...), And(conjA...))
	}
	d.err = fmt.Errorf("named capture under %v is not supported", t.Op)
	return FalseT
}

// DecomposeCaptures builds the decomposition of `subject` for a fully
// anchored pattern (\A ... \z). names lists the named groups.
func DecomposeCaptures(pattern string, subject *Term, fresh func(string, Sort) *Term) (*Decomp, error) {
	return DecomposeWanted(pattern, subject, fresh, nil)
}

// DecomposeWanted exposes only the named captures in wanted (nil = all); the
// rest of the expression stays a plain regular-language constraint.
func DecomposeWanted(pattern string, subject *Term, fresh func(string, Sort) *Term, wanted map[string]bool) (*Decomp, error) {
	return DecomposeBounded(pattern, subject, fresh, wanted, 12)
}

// DecomposeBounded: bound limits the maximal-munch look-ahead (remaining
// subjects longer than that must be excluded by the caller).
func DecomposeBounded(pattern string, subject *Term, fresh func(string, Sort) *Term, wanted map[string]bool, bound int) (*Decomp, error) {
	tree, err := syntax.Parse(pattern, syntax.Perl)
	if err != nil {
		return nil, err
	}
	begin, end, inner := stripAnchors(tree)
	if !begin || !end {
		return nil, fmt.Errorf("captures on unanchored regex %q unsupported", pattern)
	}
	d := &decomposer{fresh: fresh, caps: map[string]*Term{}, wanted: wanted, bound: bound}
	c := d.decompose(inner, subject, `(str.to_re "")`, StrT(""))
	if d.err != nil {
		return nil, d.err
	}
	for n := range wanted {
		if _, ok := d.caps[n]; !ok {
			return nil, fmt.Errorf("capture %q not found in %q", n, pattern)
		}
	}
	return &Decomp{Constraint: c, Captures: d.caps, Fresh: d.vars, Munch: d.munch, Bound: bound}, nil
}

// CaptureNames returns SubexpNames of the pattern.
func CaptureNames(pattern string) []string {
	return regexp.MustCompile(pattern).SubexpNames()
}
