package engine

import (
	"fmt"
	"regexp"
	"regexp/syntax"
	"strings"
	"sync"
)

// maxSMTChar is the largest code point of SMT-LIB's String theory.
const maxSMTChar = 0x2FFFF

var (
	regexCacheMu sync.Mutex
	regexCache   = map[string]*Regex{}
)

// CompileRegex translates a Go (Perl-syntax) regular expression to an SMT
// RegLan denoting exactly the strings on which MatchString is true.
func CompileRegex(pattern string) (*Regex, error) {
	regexCacheMu.Lock()
	defer regexCacheMu.Unlock()
	if r, ok := regexCache[pattern]; ok {
		return r, nil
	}
	goRe, err := regexp.Compile(pattern)
	if err != nil {
		return nil, err
	}
	tree, err := syntax.Parse(pattern, syntax.Perl)
	if err != nil {
		return nil, err
	}
	smt, err := reMatchLang(tree)
	if err != nil {
		return nil, fmt.Errorf("regex %q: %w", pattern, err)
	}
	r := &Regex{Pattern: pattern, Go: goRe, SMT: smt}
	regexCache[pattern] = r
	return r, nil
}

// reMatchLang: language of subjects s such that the (unanchored) regex finds a
// match in s. Leading \A and trailing \z at the top-level concatenation are
// honoured; a missing anchor pads with re.all.
func reMatchLang(t *syntax.Regexp) (string, error) {
	begin, end, inner := stripAnchors(t)
	body, err := reLang(inner)
	if err != nil {
		return "", err
	}
	parts := []string{}
	if !begin {
		parts = append(parts, "re.all")
	}
	parts = append(parts, body)
	if !end {
		parts = append(parts, "re.all")
	}
	if len(parts) == 1 {
		return parts[0], nil
	}
	return "(re.++ " + strings.Join(parts, " ") + ")", nil
}

func stripAnchors(t *syntax.Regexp) (begin, end bool, inner *syntax.Regexp) {
	if t.Op == syntax.OpConcat {
		subs := t.Sub
		if len(subs) > 0 && subs[0].Op == syntax.OpBeginText {
			begin = true
			subs = subs[1:]
		}
		if len(subs) > 0 && subs[len(subs)-1].Op == syntax.OpEndText {
			end = true
			subs = subs[:len(subs)-1]
		}
		cp := *t
		cp.Sub = subs
		return begin, end, &cp
	}
	return false, false, t
}

func reChar(r rune) string {
	return fmt.Sprintf(`(str.to_re %s)`, smtStringLit(string(r)))
}

func reRange(lo, hi rune) string {
	if lo > maxSMTChar {
		return "re.none"
	}
	if hi > maxSMTChar {
		hi = maxSMTChar
	}
	if lo == hi {
		return reChar(lo)
	}
	return fmt.Sprintf(`(re.range %s %s)`, smtStringLit(string(lo)), smtStringLit(string(hi)))
}

func reLang(t *syntax.Regexp) (string, error) {
	switch t.Op {
	case syntax.OpEmptyMatch:
		return `(str.to_re "")`, nil
	case syntax.OpNoMatch:
		return "re.none", nil
	case syntax.OpLiteral:
		if t.Flags&syntax.FoldCase != 0 {
			return "", fmt.Errorf("case folding unsupported")
		}
		return "(str.to_re " + smtStringLit(string(t.Rune)) + ")", nil
	case syntax.OpCharClass:
		var alts []string
		for i := 0; i+1 < len(t.Rune); i += 2 {
			alts = append(alts, reRange(t.Rune[i], t.Rune[i+1]))
		}
		if len(alts) == 0 {
			return "re.none", nil
		}
		if len(alts) == 1 {
			return alts[0], nil
		}
		return "(re.union " + strings.Join(alts, " ") + ")", nil
	case syntax.OpAnyCharNotNL:
		return `(re.union (re.range "\u{0}" "\u{9}") (re.range "\u{b}" "\u{2ffff}"))`, nil
	case syntax.OpAnyChar:
		return "re.allchar", nil
	case syntax.OpCapture:
		return reLang(t.Sub[0])
	case syntax.OpStar, syntax.OpPlus, syntax.OpQuest:
		s, err := reLang(t.Sub[0])
		if err != nil {
			return "", err
		}
		switch t.Op {
		case syntax.OpStar:
			return "(re.* " + s + ")", nil
		case syntax.OpPlus:
			return "(re.+ " + s + ")", nil
		}
		return "(re.opt " + s + ")", nil
	case syntax.OpRepeat:
		s, err := reLang(t.Sub[0])
		if err != nil {
			return "", err
		}
		if t.Max < 0 {
			return fmt.Sprintf("(re.++ ((_ re.^ %d) %s) (re.* %s))", t.Min, s, s), nil
		}
		return fmt.Sprintf("((_ re.loop %d %d) %s)", t.Min, t.Max, s), nil
	case syntax.OpConcat, syntax.OpAlternate:
		var subs []string
		for _, c := range t.Sub {
			s, err := reLang(c)
			if err != nil {
				return "", err
			}
			subs = append(subs, s)
		}
		if len(subs) == 0 {
			return `(str.to_re "")`, nil
		}
		if len(subs) == 1 {
			return subs[0], nil
		}
		if t.Op == syntax.OpConcat {
			return "(re.++ " + strings.Join(subs, " ") + ")", nil
		}
		return "(re.union " + strings.Join(subs, " ") + ")", nil
	}
	return "", fmt.Errorf("unsupported regex construct %v in %q", t.Op, t.String())
}

// ---------------------------------------------------------------------------
// Named captures by existential decomposition (DESIGN 3.5).

// hasNamedCapture reports whether t contains a named capture group.
func hasNamedCapture(t *syntax.Regexp) bool {
	if t.Op == syntax.OpCapture && t.Name != "" {
		return true
	}
	for _, s := range t.Sub {
		if hasNamedCapture(s) {
			return true
		}
	}
	return false
}

// Decomp is one existential decomposition of a subject string along the spine
// of a regex: constraints plus the capture terms.
type Decomp struct {
	Constraint *Term
	Captures   map[string]*Term
	Fresh      []*Term // fresh variables introduced
}

type decomposer struct {
	fresh  func(prefix string, s Sort) *Term
	caps   map[string]*Term
	vars   []*Term
	err    error
	wanted map[string]bool // nil: every named capture
}

// hasWanted reports whether t contains a capture the decomposition must expose.
func (d *decomposer) hasWanted(t *syntax.Regexp) bool {
	if t.Op == syntax.OpCapture && t.Name != "" && (d.wanted == nil || d.wanted[t.Name]) {
		return true
	}
	for _, s := range t.Sub {
		if d.hasWanted(s) {
			return true
		}
	}
	return false
}

// decompose returns a constraint under which `subject` is matched by t, with
// named captures bound in d.caps. present=false callers bind captures to "".
func (d *decomposer) decompose(t *syntax.Regexp, subject *Term) *Term {
	if !d.hasWanted(t) {
		smt, err := reLang(t)
		if err != nil {
			d.err = err
			return FalseT
		}
		re := &Regex{Pattern: t.String(), SMT: smt}
		if subject.IsConst() {
			g, err := regexp.Compile(`\A(?:` + t.String() + `)\z`)
			if err != nil {
				d.err = err
				return FalseT
			}
			return BoolT(g.MatchString(subject.S))
		}
		return &Term{Op: "in_re", Args: []*Term{subject}, Sort: SBool, Re: re}
	}
	switch t.Op {
	case syntax.OpCapture:
		c := d.decompose(t.Sub[0], subject)
		if t.Name != "" && (d.wanted == nil || d.wanted[t.Name]) {
			if _, dup := d.caps[t.Name]; dup {
				d.err = fmt.Errorf("duplicate capture name %q", t.Name)
			}
			d.caps[t.Name] = subject
		}
		return c
	case syntax.OpConcat:
		var parts []*Term
		var cs []*Term
		for _, sub := range t.Sub {
			if sub.Op == syntax.OpLiteral && sub.Flags&syntax.FoldCase == 0 {
				parts = append(parts, StrT(string(sub.Rune)))
				continue
			}
			if sub.Op == syntax.OpBeginText || sub.Op == syntax.OpEndText {
				continue
			}
			v := d.fresh("re", SString)
			d.vars = append(d.vars, v)
			parts = append(parts, v)
			cs = append(cs, d.decompose(sub, v))
		}
		cs = append(cs, Eq(subject, Concat(parts...)))
		return And(cs...)
	case syntax.OpAlternate:
		// captures of alternatives not taken are "".
		var alts []*Term
		names := map[string]bool{}
		type altRes struct {
			c    *Term
			caps map[string]*Term
		}
		var rs []altRes
		for _, sub := range t.Sub {
			sd := &decomposer{fresh: d.fresh, caps: map[string]*Term{}, wanted: d.wanted}
			c := sd.decompose(sub, subject)
			if sd.err != nil {
				d.err = sd.err
			}
			d.vars = append(d.vars, sd.vars...)
			for n := range sd.caps {
				names[n] = true
			}
			rs = append(rs, altRes{c, sd.caps})
		}
		// one choice variable per alternative via an Int selector
		sel := d.fresh("alt", SInt)
		d.vars = append(d.vars, sel)
		outs := map[string]*Term{}
		for n := range names {
			v := d.fresh("cap_"+n, SString)
			d.vars = append(d.vars, v)
			outs[n] = v
			d.caps[n] = v
		}
		for i, r := range rs {
			conj := []*Term{Eq(sel, IntT(int64(i))), r.c}
			for n := range names {
				if ct, ok := r.caps[n]; ok {
					conj = append(conj, Eq(outs[n], ct))
				} else {
					conj = append(conj, Eq(outs[n], StrT("")))
				}
			}
			alts = append(alts, And(conj...))
		}
		return Or(alts...)
	case syntax.OpQuest:
		sd := &decomposer{fresh: d.fresh, caps: map[string]*Term{}, wanted: d.wanted}
		c := sd.decompose(t.Sub[0], subject)
		if sd.err != nil {
			d.err = sd.err
		}
		d.vars = append(d.vars, sd.vars...)
		present := d.fresh("opt", SBool)
		d.vars = append(d.vars, present)
		conjP := []*Term{present, c}
		conjA := []*Term{Not(present), Eq(subject, StrT(""))}
		for n, ct := range sd.caps {
			v := d.fresh("cap_"+n, SString)
			d.vars = append(d.vars, v)
			d.caps[n] = v
			conjP = append(conjP, Eq(v, ct))
			conjA = append(conjA, Eq(v, StrT("")))
		}
		return Or(And(conjP...), And(conjA...))
	}
	d.err = fmt.Errorf("named capture under %v is not supported", t.Op)
	return FalseT
}

// DecomposeCaptures builds the decomposition of `subject` for a fully
// anchored pattern (\A ... \z). names lists the named groups.
func DecomposeCaptures(pattern string, subject *Term, fresh func(string, Sort) *Term) (*Decomp, error) {
	return DecomposeWanted(pattern, subject, fresh, nil)
}

// DecomposeWanted exposes only the named captures in wanted (nil = all); the
// rest of the expression stays a plain regular-language constraint.
func DecomposeWanted(pattern string, subject *Term, fresh func(string, Sort) *Term, wanted map[string]bool) (*Decomp, error) {
	tree, err := syntax.Parse(pattern, syntax.Perl)
	if err != nil {
		return nil, err
	}
	begin, end, inner := stripAnchors(tree)
	if !begin || !end {
		return nil, fmt.Errorf("captures on unanchored regex %q unsupported", pattern)
	}
	d := &decomposer{fresh: fresh, caps: map[string]*Term{}, wanted: wanted}
	c := d.decompose(inner, subject)
	if d.err != nil {
		return nil, d.err
	}
	for n := range wanted {
		if _, ok := d.caps[n]; !ok {
			return nil, fmt.Errorf("capture %q not found in %q", n, pattern)
		}
	}
	return &Decomp{Constraint: c, Captures: d.caps, Fresh: d.vars}, nil
}

// CaptureNames returns SubexpNames of the pattern.
func CaptureNames(pattern string) []string {
	return regexp.MustCompile(pattern).SubexpNames()
}
