package engine

import (
	"strings"
	"unicode"
	"go/types"
	"strconv"

	"golang.org/x/tools/go/ssa"
)

// Stubs for the command-line shell around the runner (DESIGN 3.9): cobra /
// pflag flag binding, fatih/color (uncoloured: stdout is not a terminal),
// io.Discard, and the reflective template executor.

type flagBinding struct {
	ptr  Pointer
	kind string // "string", "bool", "stringArray"
	// deprecated is the usage message given to MarkDeprecated ("" = not deprecated)
	deprecated string
}

func (m *Machine) flagTable() map[string]flagBinding {
	t, ok := m.env["flags"].(map[string]flagBinding)
	if !ok {
		t = map[string]flagBinding{}
		m.env["flags"] = t
	}
	return t
}

// discardWriter is io.Discard.
func (m *Machine) discardWriter() Value {
	return Iface{T: m.pkgType("io", "discard"), V: &HarnessObj{Kind: "discard", Call: func(m *Machine, method string, args []Value) Value {
		switch method {
		case "Write":
			return Tuple{fromTerm(BLen(toTerm(bytesString(args[0])))), Iface{}}
		case "WriteString":
			return Tuple{fromTerm(BLen(toTerm(args[0]))), Iface{}}
		}
		unsupported("io.Discard.%s", method)
		return nil
	}}}
}

// bytesString views a []byte value (opaque or concrete) as a string value.
func bytesString(v Value) Value {
	s := v.(Slice)
	if s.C == nil {
		return ""
	}
	if n, ok := s.C.V.(*Native); ok && n.Kind == "bytes" {
		return n.Msg
	}
	var bs []byte
	for _, e := range sliceElems(s) {
		i, ok := e.(int64)
		if !ok {
			unsupported("symbolic byte in []byte")
		}
		bs = append(bs, byte(i))
	}
	return string(bs)
}

func (m *Machine) bytesOf(s Value) Value {
	return Slice{C: m.newCell(&Native{Kind: "bytes", Msg: s}), Off: 0, Len: -1, Cap: -1}
}

// sprint is fmt.Sprint for the operand kinds the command prints.
func (m *Machine) sprint(ops []Value) *Term {
	var parts []*Term
	prevString := true
	for i, o := range ops {
		op := o.(Iface)
		op.V = forceLazy(op.V)
		isStr := false
		if op.T != nil {
			if b, ok := op.T.Underlying().(*types.Basic); ok && b.Info()&types.IsString != 0 {
				isStr = true
			}
		}
		if i > 0 && !isStr && !prevString {
			parts = append(parts, StrT(" "))
		}
		parts = append(parts, m.fmtValue(op))
		prevString = isStr
	}
	return Concat(parts...)
}

func (m *Machine) writeTo(w Value, s *Term) {
	wi := w.(Iface)
	if wi.T == nil {
		panic(goPanic{msg: "write to nil io.Writer"})
	}
	if hv, ok := wi.V.(*HarnessObj); ok {
		hv.Call(m, "Write", []Value{m.bytesOf(fromTerm(s))})
		return
	}
	sel := m.Prog.MethodSets.MethodSet(wi.T).Lookup(nil, "Write")
	if sel == nil {
		unsupported("io.Writer without Write: %s", wi.T)
	}
	m.callClosure(m.Prog.MethodValue(sel), nil, []Value{wi.V, m.bytesOf(fromTerm(s))})
}

func init() {
	reg := func(name string, f Intrinsic) { intrinsics[name] = f }
	cobra := "(*github.com/spf13/cobra.Command)."
	reg(cobra+"Flags", func(m *Machine, fn *ssa.Function, a []Value) Value {
		return Pointer{C: m.newCell(&Native{Kind: "flagset"})}
	})
	reg(cobra+"MarkFlagRequired", func(m *Machine, fn *ssa.Function, a []Value) Value { return Iface{} })
	reg(cobra+"SetOut", func(m *Machine, fn *ssa.Function, a []Value) Value {
		m.env["stdout"] = a[1]
		return nil
	})
	reg(cobra+"OutOrStdout", func(m *Machine, fn *ssa.Function, a []Value) Value {
		if w, ok := m.env["stdout"]; ok {
			return w.(Value)
		}
		return m.discardWriter()
	})
	fs := "(*github.com/spf13/pflag.FlagSet)."
	bind := func(kind string) Intrinsic {
		return func(m *Machine, fn *ssa.Function, a []Value) Value {
			name, ok := a[2].(string)
			if !ok {
				unsupported("pflag: symbolic flag name")
			}
			p := a[1].(Pointer)
			p.store(a[4]) // default value
			m.flagTable()[name] = flagBinding{ptr: p, kind: kind}
			return nil
		}
	}
	reg(fs+"StringArrayVarP", bind("stringArray"))
	reg(fs+"StringVarP", bind("string"))
	reg(fs+"BoolVarP", bind("bool"))
	reg(fs+"Set", func(m *Machine, fn *ssa.Function, a []Value) Value {
		return m.flagSet(a[1], a[2])
	})
	// cobra's ParseFlags over concrete long-form arguments (--name, --name=value,
	// --name value): each flag goes through the flag set's Set; the warnings
	// gathered meanwhile (deprecated flags) are printed when parsing succeeded.
	reg(cobra+"ParseFlags", func(m *Machine, fn *ssa.Function, a []Value) Value {
		args := sliceElems(a[1].(Slice))
		for i := 0; i < len(args); i++ {
			arg, ok := args[i].(string)
			if !ok || !strings.HasPrefix(arg, "--") || len(arg) < 3 {
				unsupported("cobra.ParseFlags: only concrete long-form flags are modelled")
			}
			name, val, hasVal := strings.Cut(arg[2:], "=")
			b, known := m.flagTable()[name]
			if !known {
				return m.newError("unknown flag: --" + name)
			}
			var v Value = val
			if !hasVal {
				if b.kind == "bool" {
					v = "true"
				} else {
					if i+1 >= len(args) {
						return m.newError("flag needs an argument: --" + name)
					}
					i++
					v = args[i]
				}
			}
			if err := m.flagSet(name, v).(Iface); err.T != nil {
				return err
			}
		}
		return Iface{}
	})
	reg(fs+"MarkDeprecated", func(m *Machine, fn *ssa.Function, a []Value) Value {
		name, ok1 := a[1].(string)
		msg, ok2 := a[2].(string)
		if !ok1 || !ok2 {
			unsupported("pflag: symbolic flag name")
		}
		b, ok := m.flagTable()[name]
		if !ok {
			return m.newError("flag \"" + name + "\" does not exist")
		}
		if msg == "" {
			return m.newError("deprecated message for flag \"" + name + "\" must be set")
		}
		b.deprecated = msg
		m.flagTable()[name] = b
		return Iface{}
	})
	reg(fs+"MarkHidden", func(m *Machine, fn *ssa.Function, a []Value) Value {
		name, ok := a[1].(string)
		if !ok {
			unsupported("pflag: symbolic flag name")
		}
		if _, ok := m.flagTable()[name]; !ok {
			return m.newError("flag \"" + name + "\" does not exist")
		}
		return Iface{} // only affects help text, which no harness prints
	})
	// handles returned by the virtual environment's OpenFile / Create
	for _, meth := range []string{"Close", "Sync"} {
		reg("(*os.File)."+meth, func(m *Machine, fn *ssa.Function, a []Value) Value { return Iface{} })
	}
	reg("(*os.File).Write", func(m *Machine, fn *ssa.Function, a []Value) Value {
		return Tuple{fromTerm(BLen(toTerm(bytesString(a[1])))), Iface{}}
	})
	reg("(*os.File).WriteString", func(m *Machine, fn *ssa.Function, a []Value) Value {
		return Tuple{fromTerm(BLen(toTerm(a[1]))), Iface{}}
	})
	reg("fmt.Sprint", func(m *Machine, fn *ssa.Function, a []Value) Value {
		return fromTerm(m.sprint(sliceElems(a[0].(Slice))))
	})
	// fatih/color: stdout is not a terminal, so output is uncoloured
	reg("github.com/fatih/color.New", func(m *Machine, fn *ssa.Function, a []Value) Value {
		return Pointer{C: m.newCell(&Native{Kind: "color"})}
	})
	col := "(*github.com/fatih/color.Color)."
	reg(col+"Fprint", func(m *Machine, fn *ssa.Function, a []Value) Value {
		m.writeTo(a[1], m.sprint(sliceElems(a[2].(Slice))))
		return Tuple{int64(0), Iface{}}
	})
	reg(col+"Fprintln", func(m *Machine, fn *ssa.Function, a []Value) Value {
		ops := sliceElems(a[2].(Slice))
		var parts []*Term
		for i, o := range ops {
			if i > 0 {
				parts = append(parts, StrT(" "))
			}
			parts = append(parts, m.fmtValue(o.(Iface)))
		}
		parts = append(parts, StrT("\n"))
		m.writeTo(a[1], Concat(parts...))
		return Tuple{int64(0), Iface{}}
	})
	reg("(*regexp.Regexp).ReplaceAll", func(m *Machine, fn *ssa.Function, a []Value) Value {
		// only use: squeezing blank lines of gofmt'ed text (opaque here)
		return a[1]
	})
	globalInits["io.Discard"] = func(m *Machine) Value { return m.discardWriter() }
	// sentinel errors of packages whose initialisers are not executed
	globalInits["io.EOF"] = func(m *Machine) Value { return m.newError("EOF") }
	globalInits["io.ErrUnexpectedEOF"] = func(m *Machine) Value { return m.newError("unexpected EOF") }
}

// flagSet is (*pflag.FlagSet).Set on the bindings recorded by the *VarP calls.
func (m *Machine) flagSet(a1, a2 Value) Value {
	name, ok := a1.(string)
	if !ok {
		unsupported("pflag: symbolic flag name")
	}
	b, ok := m.flagTable()[name]
	if !ok {
		return m.newError("no such flag -" + name)
	}
	if b.deprecated != "" {
		// pflag writes the notice to the flag set's output; under cobra that is
		// the command's flagErrorBuf, which ParseFlags prints through
		// c.Print (OutOrStderr: the SetOut writer when one is set) before RunE.
		notice := "Flag --" + name + " has been deprecated, " + b.deprecated + "\n"
		if w, ok := m.env["stdout"]; ok {
			m.writeTo(w.(Value), StrT(notice))
		} else {
			m.env["stderr.text"] = stringOr(m.env["stderr.text"]) + notice
		}
	}
	switch b.kind {
	case "string":
		b.ptr.store(a2)
	case "bool":
		s, ok := a2.(string)
		if !ok {
			unsupported("pflag: symbolic bool flag value")
		}
		v, err := strconv.ParseBool(s)
		if err != nil {
			return m.newError("invalid bool " + s)
		}
		b.ptr.store(v)
	case "stringArray":
		cur := b.ptr.load().(Slice)
		elems := append(append([]Value(nil), sliceElems(cur)...), a2)
		b.ptr.store(Slice{C: m.newCell(&Array{E: elems}), Len: len(elems), Cap: len(elems)})
	}
	return Iface{}
}

func stringOr(v any) string {
	s, _ := v.(string)
	return s
}

// globalInits gives initial values to package-level variables of packages
// whose initialisers are not executed.
var globalInits = map[string]func(m *Machine) Value{}

// go-version: GetVersionInfo without the link-time build information (module
// version, vcs stamps): the documented defaults, then every option applied in
// order. What the options are and do is executed as SSA.
func init() {
	intrinsics["github.com/caarlos0/go-version.GetVersionInfo"] = func(m *Machine, fn *ssa.Function, a []Value) Value {
		it := fn.Signature.Results().At(0).Type()
		st := it.Underlying().(*types.Struct)
		v := zero(it).(*Struct)
		for i := 0; i < st.NumFields(); i++ {
			switch st.Field(i).Name() {
			case "GitVersion":
				v.F[i] = "devel"
			case "ModuleSum", "GitCommit", "GitTreeState", "BuildDate", "BuiltBy":
				v.F[i] = "unknown"
			case "GoVersion":
				v.F[i] = "go"
			case "Compiler":
				v.F[i] = "gc"
			case "Platform":
				v.F[i] = "os/arch"
			}
		}
		c := m.newCell(v)
		if opts, ok := a[0].(Slice); ok {
			for _, o := range sliceElems(opts) {
				m.callValue(o, []Value{Pointer{C: c}})
			}
		}
		return c.V
	}
}

// strings.ToLower / ToUpper: exact on ASCII strings. A symbolic argument is
// assumed ASCII (a stated restriction of the explored inputs, listed in the
// result's notes); the result is an uninterpreted function application whose
// contract is instantiated per query, character by character.
func init() {
	mk := func(name string, lo, hi, delta int64) {
		intrinsics["strings."+name] = func(m *Machine, fn *ssa.Function, a []Value) Value {
			v := forceLazy(a[0])
			if cs, ok := v.(string); ok {
				if name == "ToLower" {
					return strings.ToLower(cs)
				}
				return strings.ToUpper(cs)
			}
			t := toTerm(v)
			if !knownASCII(t) {
				m.assume(&Term{Op: "in_re", Args: []*Term{t}, Sort: SBool, Re: asciiRe})
				m.note("strings." + name + ": explored on ASCII arguments only")
			}
			return App("FS"+name, SString, t)
		}
		RegisterAppAxioms("FS"+name, func(app *Term) []*Term {
			arg := app.Args[0]
			out := []*Term{Eq(Len(app), Len(arg))}
			for i := int64(0); i < 12; i++ {
				c := ToCode(At(arg, IntT(i)))
				r := ToCode(At(app, IntT(i)))
				mapped := Ite(And(Ge(c, IntT(lo)), Le(c, IntT(hi))), Add(c, IntT(delta)), c)
				out = append(out, Implies(Lt(IntT(i), Len(arg)), Eq(r, mapped)))
			}
			out = append(out, Le(Len(arg), IntT(12)))
			return out
		})
	}
	mk("ToLower", 65, 90, 32)
	mk("ToUpper", 97, 122, -32)
}

// strings.TrimSpace: white space (unicode.IsSpace) is peeled off one code
// point at a time, forking on each end (bounded by the string bound).
var (
	wsClass   = `[\t\n\v\f\r \x{85}\x{A0}\x{1680}\x{2000}-\x{200A}\x{2028}\x{2029}\x{202F}\x{205F}\x{3000}]`
	wsHeadRe  = mustRegex(`\A` + wsClass + `(?s:.*)\z`)
	wsTailRe  = mustRegex(`\A(?s:.*)` + wsClass + `\z`)
)

func mustRegex(p string) *Regex {
	re, err := CompileRegex(p)
	if err != nil {
		panic(err)
	}
	return re
}

func init() {
	intrinsics["strings.TrimSpace"] = func(m *Machine, fn *ssa.Function, a []Value) Value {
		v := forceLazy(a[0])
		if cs, ok := v.(string); ok {
			return strings.TrimSpace(cs)
		}
		cur := toTerm(v)
		for n := 0; ; n++ {
			if n > m.Cfg.MaxStrLen+1 {
				unsupported("UNWIND-INSUFFICIENT: strings.TrimSpace")
			}
			if !m.branch(fromTerm(InRe(cur, wsHeadRe))) {
				break
			}
			cur = Substr(cur, IntT(1), Sub(Len(cur), IntT(1)))
		}
		for n := 0; ; n++ {
			if n > m.Cfg.MaxStrLen+1 {
				unsupported("UNWIND-INSUFFICIENT: strings.TrimSpace")
			}
			if !m.branch(fromTerm(InRe(cur, wsTailRe))) {
				break
			}
			cur = Substr(cur, IntT(0), Sub(Len(cur), IntT(1)))
		}
		return fromTerm(cur)
	}
	// unicode predicates on a code point: exact for ASCII; a symbolic code
	// point is assumed ASCII (noted as an input restriction)
	uni := func(name string, conc func(rune) bool, ranges [][2]int64) {
		intrinsics["unicode."+name] = func(m *Machine, fn *ssa.Function, a []Value) Value {
			if c, ok := a[0].(int64); ok {
				return conc(rune(c))
			}
			c := toTerm(a[0])
			m.assume(And(Ge(c, IntT(0)), Lt(c, IntT(128))))
			m.note("unicode." + name + ": explored on ASCII code points only")
			var alts []*Term
			for _, r := range ranges {
				alts = append(alts, And(Ge(c, IntT(r[0])), Le(c, IntT(r[1]))))
			}
			return fromTerm(Or(alts...))
		}
	}
	uni("IsLower", unicode.IsLower, [][2]int64{{97, 122}})
	uni("IsUpper", unicode.IsUpper, [][2]int64{{65, 90}})
	uni("IsDigit", unicode.IsDigit, [][2]int64{{48, 57}})
	uni("IsLetter", unicode.IsLetter, [][2]int64{{65, 90}, {97, 122}})
	uni("IsSpace", unicode.IsSpace, [][2]int64{{9, 13}, {32, 32}})
}

func init() {
	intrinsics["strings.Count"] = func(m *Machine, fn *ssa.Function, a []Value) Value {
		s, ok1 := forceLazy(a[0]).(string)
		sub, ok2 := forceLazy(a[1]).(string)
		if !ok1 || !ok2 {
			unsupported("strings.Count on a symbolic string")
		}
		return int64(strings.Count(s, sub))
	}
}
