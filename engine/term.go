// Package engine is "gosmt": a forking symbolic executor for go/ssa that
// emits SMT-LIB2 (strings + ints + bools) and decides harness assertions
// with z3 / cvc5. See /verif/DESIGN.md §3.
package engine

import (
	"fmt"
	"regexp"
	"sort"
	"strconv"
	"strings"
	"unicode/utf8"
)

type Sort int

const (
	SBool Sort = iota
	SInt
	SString
)

func (s Sort) String() string {
	switch s {
	case SBool:
		return "Bool"
	case SInt:
		return "Int"
	}
	return "String"
}

// Term is an immutable SMT term.
type Term struct {
	Op   string // "const","var", or SMT operator / "in_re" / "app:<fn>"
	Args []*Term
	Sort Sort
	S    string // const string / var name / regex (SMT RegLan text) for in_re
	I    int64
	B    bool
	Re   *Regex // for in_re
	Hi   int64  // for Int vars: known upper bound (0 = unknown); lower bound 0 implied when Hi > 0
	key  string
}

func (t *Term) IsConst() bool { return t.Op == "const" }

func BoolT(b bool) *Term    { return &Term{Op: "const", Sort: SBool, B: b} }
func IntT(i int64) *Term    { return &Term{Op: "const", Sort: SInt, I: i} }
func StrT(s string) *Term   { return &Term{Op: "const", Sort: SString, S: s} }
func VarT(n string, s Sort) *Term { return &Term{Op: "var", Sort: s, S: n} }

var (
	TrueT  = BoolT(true)
	FalseT = BoolT(false)
)

// Key returns a canonical text (the SMT-LIB rendering) used for syntactic
// equality and caching.
func (t *Term) Key() string {
	if t.key == "" {
		t.key = t.SMT()
	}
	return t.key
}

func smtStringLit(s string) string {
	var b strings.Builder
	b.WriteByte('"')
	for _, r := range s {
		switch {
		case r == '"':
			b.WriteString(`""`)
		case r == '\\':
			b.WriteString(`\u{5c}`)
		case r >= 0x20 && r < 0x7f:
			b.WriteRune(r)
		default:
			fmt.Fprintf(&b, `\u{%x}`, r)
		}
	}
	b.WriteByte('"')
	return b.String()
}

func (t *Term) SMT() string {
	switch t.Op {
	case "const":
		switch t.Sort {
		case SBool:
			if t.B {
				return "true"
			}
			return "false"
		case SInt:
			if t.I < 0 {
				return fmt.Sprintf("(- %d)", uint64(-t.I))
			}
			return fmt.Sprintf("%d", t.I)
		default:
			return smtStringLit(t.S)
		}
	case "var":
		return t.S
	case "in_re":
		return "(str.in_re " + t.Args[0].SMT() + " " + t.Re.SMT + ")"
	}
	var b strings.Builder
	b.WriteByte('(')
	if strings.HasPrefix(t.Op, "app:") {
		b.WriteString(t.Op[4:])
	} else {
		b.WriteString(t.Op)
	}
	for _, a := range t.Args {
		b.WriteByte(' ')
		b.WriteString(a.SMT())
	}
	b.WriteByte(')')
	return b.String()
}

func (t *Term) String() string { return t.SMT() }

// Vars collects the free variables of t.
func (t *Term) Vars(into map[string]Sort) {
	if t.Op == "var" {
		into[t.S] = t.Sort
		return
	}
	for _, a := range t.Args {
		a.Vars(into)
	}
}

// Apps collects uninterpreted function symbols used ("app:<fn>").
func (t *Term) Apps(into map[string]bool) {
	if strings.HasPrefix(t.Op, "app:") {
		into[t.Op[4:]] = true
	}
	for _, a := range t.Args {
		a.Apps(into)
	}
}

// ---------------------------------------------------------------------------
// constructors with simplification

func Not(a *Term) *Term {
	if a.IsConst() {
		return BoolT(!a.B)
	}
	if a.Op == "not" {
		return a.Args[0]
	}
	return &Term{Op: "not", Args: []*Term{a}, Sort: SBool}
}

func And(as ...*Term) *Term {
	var out []*Term
	seen := map[string]bool{}
	for _, a := range as {
		if a.IsConst() {
			if !a.B {
				return FalseT
			}
			continue
		}
		if a.Op == "and" {
			for _, x := range a.Args {
				if !seen[x.Key()] {
					seen[x.Key()] = true
					out = append(out, x)
				}
			}
			continue
		}
		if !seen[a.Key()] {
			seen[a.Key()] = true
			out = append(out, a)
		}
	}
	for _, a := range out {
		if seen[Not(a).Key()] {
			return FalseT
		}
	}
	switch len(out) {
	case 0:
		return TrueT
	case 1:
		return out[0]
	}
	return &Term{Op: "and", Args: out, Sort: SBool}
}

func Or(as ...*Term) *Term {
	var out []*Term
	seen := map[string]bool{}
	for _, a := range as {
		if a.IsConst() {
			if a.B {
				return TrueT
			}
			continue
		}
		if a.Op == "or" {
			for _, x := range a.Args {
				if !seen[x.Key()] {
					seen[x.Key()] = true
					out = append(out, x)
				}
			}
			continue
		}
		if !seen[a.Key()] {
			seen[a.Key()] = true
			out = append(out, a)
		}
	}
	for _, a := range out {
		if seen[Not(a).Key()] {
			return TrueT
		}
	}
	switch len(out) {
	case 0:
		return FalseT
	case 1:
		return out[0]
	}
	return &Term{Op: "or", Args: out, Sort: SBool}
}

func Implies(a, b *Term) *Term { return Or(Not(a), b) }

func Ite(c, a, b *Term) *Term {
	if c.IsConst() {
		if c.B {
			return a
		}
		return b
	}
	if a.Key() == b.Key() {
		return a
	}
	if a.Sort == SBool {
		return And(Implies(c, a), Implies(Not(c), b))
	}
	return &Term{Op: "ite", Args: []*Term{c, a, b}, Sort: a.Sort}
}

// concatParts flattens a str.++ term.
func concatParts(t *Term) []*Term {
	if t.Op == "str.++" {
		return t.Args
	}
	if t.IsConst() && t.S == "" {
		return nil
	}
	return []*Term{t}
}

// minLen is a cheap syntactic lower bound on the length of a string term.
func minLen(t *Term) int64 {
	switch {
	case t.IsConst():
		return int64(utf8.RuneCountInString(t.S))
	case t.Op == "str.++":
		var n int64
		for _, a := range t.Args {
			n += minLen(a)
		}
		return n
	case strings.HasPrefix(t.Op, "app:Q"):
		return 2
	}
	return 0
}

// exactLen returns the length if syntactically known.
func exactLen(t *Term) (int64, bool) {
	switch {
	case t.IsConst():
		return int64(utf8.RuneCountInString(t.S)), true
	case t.Op == "str.++":
		var n int64
		for _, a := range t.Args {
			k, ok := exactLen(a)
			if !ok {
				return 0, false
			}
			n += k
		}
		return n, true
	case t.Op == "str.from_code": // only built over code variables constrained to valid code points
		return 1, true
	case t.Op == "str.at" && t.Args[1].IsConst():
		// at(s,i) has length 1 when i is within a known-length prefix; unknown otherwise
		return 0, false
	}
	return 0, false
}

func Eq(a, b *Term) *Term {
	if a.Sort != b.Sort {
		panic(fmt.Sprintf("Eq: sort mismatch %v %v: %s vs %s", a.Sort, b.Sort, a, b))
	}
	if a.IsConst() && b.IsConst() {
		switch a.Sort {
		case SBool:
			return BoolT(a.B == b.B)
		case SInt:
			return BoolT(a.I == b.I)
		default:
			return BoolT(a.S == b.S)
		}
	}
	if a.Key() == b.Key() {
		return TrueT
	}
	if a.Sort == SBool {
		if a.IsConst() {
			a, b = b, a
		}
		if b.IsConst() {
			if b.B {
				return a
			}
			return Not(a)
		}
	}
	if a.Sort == SString {
		// strip common literal prefix / suffix parts; detect length clashes
		pa, pb := concatParts(a), concatParts(b)
		for len(pa) > 0 && len(pb) > 0 {
			x, y := pa[0], pb[0]
			if x.Key() == y.Key() {
				pa, pb = pa[1:], pb[1:]
				continue
			}
			if x.IsConst() && y.IsConst() {
				xr, yr := []rune(x.S), []rune(y.S)
				n := len(xr)
				if len(yr) < n {
					n = len(yr)
				}
				if string(xr[:n]) != string(yr[:n]) {
					return FalseT
				}
				pa = append([]*Term{StrT(string(xr[n:]))}, pa[1:]...)
				pb = append([]*Term{StrT(string(yr[n:]))}, pb[1:]...)
				if pa[0].S == "" {
					pa = pa[1:]
				}
				if pb[0].S == "" {
					pb = pb[1:]
				}
				continue
			}
			break
		}
		for len(pa) > 0 && len(pb) > 0 {
			x, y := pa[len(pa)-1], pb[len(pb)-1]
			if x.Key() == y.Key() {
				pa, pb = pa[:len(pa)-1], pb[:len(pb)-1]
				continue
			}
			if x.IsConst() && y.IsConst() {
				xr, yr := []rune(x.S), []rune(y.S)
				n := len(xr)
				if len(yr) < n {
					n = len(yr)
				}
				if string(xr[len(xr)-n:]) != string(yr[len(yr)-n:]) {
					return FalseT
				}
				pa = append(append([]*Term{}, pa[:len(pa)-1]...), StrT(string(xr[:len(xr)-n])))
				pb = append(append([]*Term{}, pb[:len(pb)-1]...), StrT(string(yr[:len(yr)-n])))
				if pa[len(pa)-1].S == "" {
					pa = pa[:len(pa)-1]
				}
				if pb[len(pb)-1].S == "" {
					pb = pb[:len(pb)-1]
				}
				continue
			}
			break
		}
		a, b = Concat(pa...), Concat(pb...)
		if a.Key() == b.Key() {
			return TrueT
		}
		if a.Op == "str.from_code" && b.Op == "str.from_code" {
			return Eq(a.Args[0], b.Args[0])
		}
		if b.Op == "str.from_code" && a.IsConst() {
			a, b = b, a
		}
		if a.Op == "str.from_code" && b.IsConst() {
			r := []rune(b.S)
			if len(r) != 1 {
				return FalseT
			}
			return Eq(a.Args[0], IntT(int64(r[0])))
		}
		if a.IsConst() && b.IsConst() {
			return BoolT(a.S == b.S)
		}
		if la, ok := exactLen(a); ok {
			if lb, ok2 := exactLen(b); ok2 && la != lb {
				return FalseT
			}
			if minLen(b) > la {
				return FalseT
			}
		}
		if lb, ok := exactLen(b); ok && minLen(a) > lb {
			return FalseT
		}
	}
	if a.IsConst() && !b.IsConst() {
		a, b = b, a
	}
	return &Term{Op: "=", Args: []*Term{a, b}, Sort: SBool}
}

func Concat(as ...*Term) *Term {
	var out []*Term
	for _, a := range as {
		for _, p := range concatParts(a) {
			if p.IsConst() && p.S == "" {
				continue
			}
			if n := len(out); n > 0 {
				last := out[n-1]
				if last.IsConst() && p.IsConst() {
					out[n-1] = StrT(last.S + p.S)
					continue
				}
				// at(s,i) ++ at(s,i+1) => substr(s,i,2) etc.
				if m := mergeAdjacent(last, p); m != nil {
					out[n-1] = m
					continue
				}
			}
			out = append(out, p)
		}
	}
	switch len(out) {
	case 0:
		return StrT("")
	case 1:
		return out[0]
	}
	return &Term{Op: "str.++", Args: out, Sort: SString}
}

// asSubstr views at(s,i) / substr(s,i,k) with constant i,k as (s,i,k).
func asSubstr(t *Term) (s *Term, i, k int64, ok bool) {
	switch t.Op {
	case "str.at":
		if t.Args[1].IsConst() {
			return t.Args[0], t.Args[1].I, 1, true
		}
	case "str.substr":
		if t.Args[1].IsConst() && t.Args[2].IsConst() {
			return t.Args[0], t.Args[1].I, t.Args[2].I, true
		}
	}
	return nil, 0, 0, false
}

func mergeAdjacent(a, b *Term) *Term {
	s1, i1, k1, ok1 := asSubstr(a)
	s2, i2, k2, ok2 := asSubstr(b)
	if ok1 && ok2 && s1.Key() == s2.Key() && i1+k1 == i2 {
		return &Term{Op: "str.substr", Args: []*Term{s1, IntT(i1), IntT(k1 + k2)}, Sort: SString}
	}
	return nil
}

func Len(a *Term) *Term {
	if n, ok := exactLen(a); ok {
		return IntT(n)
	}
	if a.Op == "str.++" {
		var c int64
		var rest []*Term
		for _, p := range a.Args {
			if n, ok := exactLen(p); ok {
				c += n
			} else {
				rest = append(rest, &Term{Op: "str.len", Args: []*Term{p}, Sort: SInt})
			}
		}
		return Add(append(rest, IntT(c))...)
	}
	return &Term{Op: "str.len", Args: []*Term{a}, Sort: SInt}
}

func Add(as ...*Term) *Term {
	var c int64
	var out []*Term
	for _, a := range as {
		if a.IsConst() {
			c += a.I
			continue
		}
		if a.Op == "+" {
			for _, x := range a.Args {
				if x.IsConst() {
					c += x.I
				} else {
					out = append(out, x)
				}
			}
			continue
		}
		out = append(out, a)
	}
	if len(out) == 0 {
		return IntT(c)
	}
	if c != 0 {
		out = append(out, IntT(c))
	}
	if len(out) == 1 {
		return out[0]
	}
	return &Term{Op: "+", Args: out, Sort: SInt}
}

func Sub(a, b *Term) *Term {
	if b.IsConst() {
		return Add(a, IntT(-b.I))
	}
	if a.Key() == b.Key() {
		return IntT(0)
	}
	return &Term{Op: "-", Args: []*Term{a, b}, Sort: SInt}
}

func Mul(a, b *Term) *Term {
	if a.IsConst() && b.IsConst() {
		return IntT(a.I * b.I)
	}
	return &Term{Op: "*", Args: []*Term{a, b}, Sort: SInt}
}

func Neg(a *Term) *Term {
	if a.IsConst() {
		return IntT(-a.I)
	}
	return &Term{Op: "-", Args: []*Term{a}, Sort: SInt}
}

func cmpInt(op string, a, b *Term) *Term {
	if a.IsConst() && b.IsConst() {
		switch op {
		case "<":
			return BoolT(a.I < b.I)
		case "<=":
			return BoolT(a.I <= b.I)
		case ">":
			return BoolT(a.I > b.I)
		case ">=":
			return BoolT(a.I >= b.I)
		}
	}
	// len(x) >= 0 etc.
	if a.Op == "str.len" && b.IsConst() {
		if (op == ">=" && b.I <= 0) || (op == ">" && b.I < 0) {
			return TrueT
		}
		if (op == "<" && b.I <= 0) || (op == "<=" && b.I < 0) {
			return FalseT
		}
	}
	if b.Op == "str.len" && a.IsConst() {
		if (op == "<=" && a.I <= 0) || (op == "<" && a.I < 0) {
			return TrueT
		}
		if (op == ">" && a.I <= 0) || (op == ">=" && a.I < 0) {
			return FalseT
		}
	}
	// normalise to < and <= with not
	switch op {
	case ">":
		return cmpInt("<", b, a)
	case ">=":
		return cmpInt("<=", b, a)
	}
	return &Term{Op: op, Args: []*Term{a, b}, Sort: SBool}
}

func Lt(a, b *Term) *Term { return cmpInt("<", a, b) }
func Le(a, b *Term) *Term { return cmpInt("<=", a, b) }
func Gt(a, b *Term) *Term { return cmpInt(">", a, b) }
func Ge(a, b *Term) *Term { return cmpInt(">=", a, b) }

// constPrefix returns the leading constant part of a string term.
func constPrefix(t *Term) (string, bool) {
	if t.IsConst() {
		return t.S, true
	}
	if t.Op == "str.++" && t.Args[0].IsConst() {
		return t.Args[0].S, false
	}
	return "", false
}

// cmpByPrefix decides a lexicographic comparison when the constant prefixes
// already differ: returns -1 / +1, or 0 if undecided.
func cmpByPrefix(a, b *Term) int {
	pa, wa := constPrefix(a)
	pb, wb := constPrefix(b)
	ra, rb := []rune(pa), []rune(pb)
	n := len(ra)
	if len(rb) < n {
		n = len(rb)
	}
	for i := 0; i < n; i++ {
		if ra[i] != rb[i] {
			if ra[i] < rb[i] {
				return -1
			}
			return 1
		}
	}
	// one prefix is a prefix of the other
	if wa && len(ra) <= len(rb) && !(wb && len(ra) == len(rb)) {
		// a is a whole constant that is a proper prefix of b's known prefix,
		// or equal to a prefix of a longer/extendable b: a <= b; strict unless b could equal a
		if len(ra) < len(rb) {
			return -1
		}
	}
	if wb && len(rb) < len(ra) {
		return 1
	}
	return 0
}

func StrLt(a, b *Term) *Term {
	if a.IsConst() && b.IsConst() {
		return BoolT(a.S < b.S) // UTF-8 byte order == code point order
	}
	if a.Key() == b.Key() {
		return FalseT
	}
	switch cmpByPrefix(a, b) {
	case -1:
		return TrueT
	case 1:
		return FalseT
	}
	return &Term{Op: "str.<", Args: []*Term{a, b}, Sort: SBool}
}

func StrLe(a, b *Term) *Term {
	if a.IsConst() && b.IsConst() {
		return BoolT(a.S <= b.S)
	}
	if a.Key() == b.Key() {
		return TrueT
	}
	switch cmpByPrefix(a, b) {
	case -1:
		return TrueT
	case 1:
		return FalseT
	}
	return &Term{Op: "str.<=", Args: []*Term{a, b}, Sort: SBool}
}

func At(s, i *Term) *Term {
	if s.IsConst() && i.IsConst() {
		r := []rune(s.S)
		if i.I >= 0 && i.I < int64(len(r)) {
			return StrT(string(r[i.I]))
		}
		return StrT("")
	}
	if i.IsConst() && s.Op == "str.++" {
		// walk over parts of known length
		off := i.I
		for _, p := range s.Args {
			n, ok := exactLen(p)
			if !ok {
				break
			}
			if off < n {
				return At(p, IntT(off))
			}
			off -= n
		}
	}
	if i.IsConst() && s.Op == "str.substr" && s.Args[1].IsConst() && s.Args[2].IsConst() {
		if i.I >= 0 && i.I < s.Args[2].I {
			return At(s.Args[0], IntT(s.Args[1].I+i.I))
		}
	}
	if (s.Op == "str.at" || s.Op == "str.from_code") && i.IsConst() && i.I == 0 {
		return s
	}
	if s.Op == "str.from_code" && i.IsConst() && i.I != 0 {
		return StrT("")
	}
	return &Term{Op: "str.at", Args: []*Term{s, i}, Sort: SString}
}

func Substr(s, i, n *Term) *Term {
	if s.IsConst() && i.IsConst() && n.IsConst() {
		r := []rune(s.S)
		if i.I < 0 || i.I > int64(len(r)) || n.I <= 0 {
			return StrT("")
		}
		e := i.I + n.I
		if e > int64(len(r)) {
			e = int64(len(r))
		}
		return StrT(string(r[i.I:e]))
	}
	if n.IsConst() && n.I <= 0 {
		return StrT("")
	}
	if i.IsConst() && n.IsConst() && s.Op == "str.++" {
		// try to resolve over known-length parts
		off, need := i.I, n.I
		var parts []*Term
		ok := true
		for _, p := range s.Args {
			pl, known := exactLen(p)
			if need == 0 {
				break
			}
			if !known {
				ok = false
				break
			}
			if off >= pl {
				off -= pl
				continue
			}
			take := pl - off
			if take > need {
				take = need
			}
			if off == 0 && take == pl {
				parts = append(parts, p)
			} else {
				parts = append(parts, Substr(p, IntT(off), IntT(take)))
			}
			need -= take
			off = 0
		}
		if ok && need == 0 {
			return Concat(parts...)
		}
	}
	if i.IsConst() && n.IsConst() && n.I == 1 {
		return At(s, i)
	}
	if i.IsConst() && n.IsConst() && s.Op == "str.substr" && s.Args[1].IsConst() && s.Args[2].IsConst() {
		if i.I >= 0 && i.I+n.I <= s.Args[2].I {
			return Substr(s.Args[0], IntT(s.Args[1].I+i.I), n)
		}
	}
	return &Term{Op: "str.substr", Args: []*Term{s, i, n}, Sort: SString}
}

func PrefixOf(p, s *Term) *Term {
	if p.IsConst() && p.S == "" {
		return TrueT
	}
	if p.IsConst() && s.IsConst() {
		return BoolT(strings.HasPrefix(s.S, p.S))
	}
	if p.Key() == s.Key() {
		return TrueT
	}
	sp := concatParts(s)
	if len(sp) > 0 && sp[0].Key() == p.Key() {
		return TrueT
	}
	if p.IsConst() && len(sp) > 0 && sp[0].IsConst() {
		a, b := []rune(p.S), []rune(sp[0].S)
		n := len(a)
		if len(b) < n {
			n = len(b)
		}
		if string(a[:n]) != string(b[:n]) {
			return FalseT
		}
		if len(a) <= len(b) {
			return TrueT
		}
		return PrefixOf(StrT(string(a[n:])), Concat(sp[1:]...))
	}
	if l, ok := exactLen(s); ok && minLen(p) > l {
		return FalseT
	}
	return &Term{Op: "str.prefixof", Args: []*Term{p, s}, Sort: SBool}
}

func SuffixOf(p, s *Term) *Term {
	if p.IsConst() && p.S == "" {
		return TrueT
	}
	if p.IsConst() && s.IsConst() {
		return BoolT(strings.HasSuffix(s.S, p.S))
	}
	if p.Key() == s.Key() {
		return TrueT
	}
	sp := concatParts(s)
	if len(sp) > 0 && sp[len(sp)-1].Key() == p.Key() {
		return TrueT
	}
	if p.IsConst() && len(sp) > 0 && sp[len(sp)-1].IsConst() {
		a, b := []rune(p.S), []rune(sp[len(sp)-1].S)
		n := len(a)
		if len(b) < n {
			n = len(b)
		}
		if string(a[len(a)-n:]) != string(b[len(b)-n:]) {
			return FalseT
		}
		if len(a) <= len(b) {
			return TrueT
		}
		return SuffixOf(StrT(string(a[:len(a)-n])), Concat(sp[:len(sp)-1]...))
	}
	if l, ok := exactLen(s); ok && minLen(p) > l {
		return FalseT
	}
	return &Term{Op: "str.suffixof", Args: []*Term{p, s}, Sort: SBool}
}

func Contains(s, sub *Term) *Term {
	if sub.IsConst() && sub.S == "" {
		return TrueT
	}
	if s.IsConst() && sub.IsConst() {
		return BoolT(strings.Contains(s.S, sub.S))
	}
	if s.Key() == sub.Key() {
		return TrueT
	}
	for _, p := range concatParts(s) {
		if p.Key() == sub.Key() {
			return TrueT
		}
		if p.IsConst() && sub.IsConst() && strings.Contains(p.S, sub.S) {
			return TrueT
		}
	}
	// sub is a concat whose parts appear consecutively in s
	sp, bp := concatParts(s), concatParts(sub)
	if len(bp) > 1 && len(sp) >= len(bp) {
	outer:
		for i := 0; i+len(bp) <= len(sp); i++ {
			for j := range bp {
				x, y := sp[i+j], bp[j]
				if x.Key() == y.Key() {
					continue
				}
				if x.IsConst() && y.IsConst() {
					if j == 0 && strings.HasSuffix(x.S, y.S) {
						continue
					}
					if j == len(bp)-1 && strings.HasPrefix(x.S, y.S) {
						continue
					}
				}
				continue outer
			}
			return TrueT
		}
	}
	return &Term{Op: "str.contains", Args: []*Term{s, sub}, Sort: SBool}
}

func IndexOf(s, sub, from *Term) *Term {
	if s.IsConst() && sub.IsConst() && from.IsConst() && from.I == 0 {
		i := strings.Index(s.S, sub.S)
		if i < 0 {
			return IntT(-1)
		}
		return IntT(int64(utf8.RuneCountInString(s.S[:i])))
	}
	return &Term{Op: "str.indexof", Args: []*Term{s, sub, from}, Sort: SInt}
}

func Replace(s, old, new *Term) *Term {
	if s.IsConst() && old.IsConst() && new.IsConst() {
		return StrT(strings.Replace(s.S, old.S, new.S, 1))
	}
	return &Term{Op: "str.replace", Args: []*Term{s, old, new}, Sort: SString}
}

func FromCode(c *Term) *Term {
	if c.IsConst() {
		if c.I < 0 || c.I > 0x10ffff {
			return StrT("�")
		}
		return StrT(string(rune(c.I)))
	}
	if c.Op == "str.to_code" && (c.Args[0].Op == "str.at" || c.Args[0].Op == "str.from_code") {
		return c.Args[0]
	}
	return &Term{Op: "str.from_code", Args: []*Term{c}, Sort: SString}
}

func ToCode(s *Term) *Term {
	if s.IsConst() {
		r := []rune(s.S)
		if len(r) == 1 {
			return IntT(int64(r[0]))
		}
		return IntT(-1)
	}
	if s.Op == "str.from_code" {
		return s.Args[0] // valid for code points in range (guarded by caller)
	}
	return &Term{Op: "str.to_code", Args: []*Term{s}, Sort: SInt}
}

func FromInt(i *Term) *Term {
	if i.IsConst() {
		return StrT(fmt.Sprintf("%d", i.I))
	}
	// str.from_int is "" for negatives; Go prints "-n"
	return Ite(Lt(i, IntT(0)),
		Concat(StrT("-"), &Term{Op: "str.from_int", Args: []*Term{Neg(i)}, Sort: SString}),
		&Term{Op: "str.from_int", Args: []*Term{i}, Sort: SString})
}

// Quote is fmt's %+q: exact on constants, the uninterpreted Q otherwise.
func Quote(t *Term) *Term {
	if t.IsConst() {
		return StrT(strconv.QuoteToASCII(t.S))
	}
	return App("Q", SString, t)
}

func App(fn string, sort Sort, args ...*Term) *Term {
	return &Term{Op: "app:" + fn, Args: args, Sort: sort}
}

func InRe(s *Term, re *Regex) *Term {
	if s.IsConst() {
		return BoolT(re.MatchConcrete(s.S))
	}
	return &Term{Op: "in_re", Args: []*Term{s}, Sort: SBool, Re: re}
}

// ---------------------------------------------------------------------------

// Regex is a regular expression in both native and SMT form.
type Regex struct {
	Pattern string
	Go      *regexp.Regexp
	SMT     string // RegLan term denoting the set of strings s with Go.MatchString(s)
}

func (r *Regex) MatchConcrete(s string) bool { return r.Go.MatchString(s) }

func sortedKeys[V any](m map[string]V) []string {
	ks := make([]string, 0, len(m))
	for k := range m {
		ks = append(ks, k)
	}
	sort.Strings(ks)
	return ks
}

// BLen is the UTF-8 byte length of a string term: exact for constants and
// additive over concatenation; otherwise an uninterpreted function FIblen
// with axioms len(s) <= blen(s) <= 4*len(s) and blen(s) = len(s) on ASCII
// (instantiated per query in solver.go).
func BLen(a *Term) *Term {
	if a.IsConst() {
		return IntT(int64(len(a.S)))
	}
	if a.Op == "str.++" {
		var parts []*Term
		for _, p := range a.Args {
			parts = append(parts, BLen(p))
		}
		return Add(parts...)
	}
	if a.Op == "str.from_code" {
		c := a.Args[0]
		if c.Op == "var" && c.Hi > 0 && c.Hi < 128 {
			return IntT(1)
		}
		return Ite(Lt(c, IntT(128)), IntT(1), Ite(Lt(c, IntT(2048)), IntT(2), Ite(Lt(c, IntT(65536)), IntT(3), IntT(4))))
	}
	return App("FIblen", SInt, a)
}
