package engine

import (
	"fmt"
	"go/types"
	"hash/fnv"
	"regexp/syntax"
	"sort"
	"strconv"
	"strings"
	"sync"

	"golang.org/x/tools/go/ssa"
)

var intrinsics = map[string]Intrinsic{}

func init() {
	for k, v := range map[string]Intrinsic{
		"strings.HasPrefix":  inHasPrefix,
		"strings.HasSuffix":  inHasSuffix,
		"strings.Contains":   inContains,
		"strings.Index":      inIndex,
		"strings.Join":       inJoin,
		"strings.Fields": func(m *Machine, fn *ssa.Function, a []Value) Value {
			s, ok := forceLazy(a[0]).(string)
			if !ok {
				unsupported("strings.Fields on a symbolic string")
			}
			var out []Value
			for _, f := range strings.Fields(s) {
				out = append(out, f)
			}
			return m.stringSlice(out)
		},
		"strings.ReplaceAll": func(m *Machine, fn *ssa.Function, a []Value) Value {
			s, ok1 := forceLazy(a[0]).(string)
			o, ok2 := forceLazy(a[1]).(string)
			n, ok3 := forceLazy(a[2]).(string)
			if !ok1 || !ok2 || !ok3 {
				unsupported("strings.ReplaceAll on symbolic strings")
			}
			return strings.ReplaceAll(s, o, n)
		},
		"strings.LastIndex": func(m *Machine, fn *ssa.Function, a []Value) Value {
			s, ok1 := forceLazy(a[0]).(string)
			sub, ok2 := forceLazy(a[1]).(string)
			if ok1 && ok2 {
				return int64(strings.LastIndex(s, sub))
			}
			if !ok2 || len([]rune(sub)) != 1 {
				unsupported("strings.LastIndex with a symbolic or multi-rune separator")
			}
			// (rune index == byte index on ASCII subjects; callers that slice with it carry the ASCII guard)
			st, sep := toTerm(forceLazy(a[0])), StrT(sub)
			if !m.branch(fromTerm(Contains(st, sep))) {
				return int64(-1)
			}
			i := m.freshVar("lastidx", SInt)
			m.assume(And(Ge(i, IntT(0)), Lt(i, Len(st)), Eq(At(st, i), sep),
				Not(Contains(Substr(st, Add(i, IntT(1)), Sub(Len(st), Add(i, IntT(1)))), sep))))
			return i
		},
		"strings.Split":      inSplit,
		"strings.Trim":       inTrim,
		"strings.TrimPrefix": inTrimPrefix,
		"strings.TrimSuffix": inTrimSuffix,
		"strings.Replace":    inReplace,
		"strings.Repeat":     inRepeat,
		"strconv.FormatInt":  inFormatInt,
		"strconv.Itoa": func(m *Machine, fn *ssa.Function, a []Value) Value {
			return fromTerm(FromInt(toTerm(a[0])))
		},
		"fmt.Sprintf": func(m *Machine, fn *ssa.Function, a []Value) Value {
			s, _ := m.sprintf(a[0], a[1].(Slice))
			return s
		},
		"fmt.Errorf":                inErrorf,
		"(*fmt.wrapError).Error":    func(m *Machine, fn *ssa.Function, a []Value) Value { return a[0].(Pointer).load().(*Struct).F[0] },
		"(*fmt.wrapError).Unwrap":   func(m *Machine, fn *ssa.Function, a []Value) Value { return a[0].(Pointer).load().(*Struct).F[1] },
		"errors.Is":                 inErrorsIs,
		"sort.Slice":                inSortSlice,
		"sort.SliceStable":          inSortSlice,
		"sort.Strings":              inSortStrings,
		"regexp.MustCompile":        inRegexpCompile,
		"(*regexp.Regexp).MatchString":         inMatchString,
		"(*regexp.Regexp).FindStringSubmatch":  inFindStringSubmatch,
		"(*regexp.Regexp).SubexpNames":         inSubexpNames,
		"(*regexp.Regexp).ReplaceAllString":    inReplaceAllString,
		"reflect.TypeOf":                       inReflectTypeOf,
		"(*reflect.rtype).Kind":                inRtypeKind,
		"(*reflect.rtype).NumMethod":           inRtypeNumMethod,
		"(*reflect.rtype).Method":              inRtypeMethod,
		"(*reflect.rtype).Implements": func(m *Machine, fn *ssa.Function, a []Value) Value {
			t := nativeOf(a[0]).RT
			ui := a[1].(Iface)
			it, ok := nativeOf(ui.V).RT.Underlying().(*types.Interface)
			if !ok {
				panic(goPanic{msg: "reflect: non-interface type passed to Type.Implements"})
			}
			return types.Implements(t, it)
		},
		"(*reflect.rtype).Elem": func(m *Machine, fn *ssa.Function, a []Value) Value {
			t := nativeOf(a[0]).RT
			switch u := t.Underlying().(type) {
			case *types.Pointer:
				return m.rtype(u.Elem())
			case *types.Slice:
				return m.rtype(u.Elem())
			case *types.Array:
				return m.rtype(u.Elem())
			case *types.Map:
				return m.rtype(u.Elem())
			}
			panic(goPanic{msg: "reflect: Elem of invalid type " + t.String()})
		},
		"(*reflect.rtype).Name": func(m *Machine, fn *ssa.Function, a []Value) Value {
			t := nativeOf(a[0]).RT
			if n, ok := t.(*types.Named); ok {
				return n.Obj().Name()
			}
			if b, ok := t.(*types.Basic); ok {
				return b.Name()
			}
			return ""
		},
		"github.com/gontainer/gontainer-helpers/v3/container.New": func(m *Machine, fn *ssa.Function, a []Value) Value {
			return Pointer{C: m.newCell(&Native{Kind: "container"})}
		},
		"github.com/gontainer/gontainer-helpers/v3/exporter.MustExport": func(m *Machine, fn *ssa.Function, a []Value) Value {
			s, ok := m.export(a[0].(Iface))
			if !ok {
				panic(goPanic{msg: "cannot export value to string"})
			}
			return s
		},
		"github.com/gontainer/gontainer-helpers/v3/exporter.Export": func(m *Machine, fn *ssa.Function, a []Value) Value {
			s, ok := m.export(a[0].(Iface))
			if !ok {
				return Tuple{"", m.newError(fmt.Sprintf("type %s is not supported", typeName(a[0].(Iface))))}
			}
			return Tuple{s, Iface{}}
		},
		"github.com/gontainer/gontainer-helpers/v3/graph.New": inGraphNew,
		"github.com/gontainer/gontainer-helpers/v3/exporter.CastToString": func(m *Machine, fn *ssa.Function, a []Value) Value {
			// documented: strings as they are, numbers without type, booleans, nil -> "nil"
			v := a[0].(Iface)
			v.V = forceLazy(v.V)
			if v.T == nil {
				return Tuple{"nil", Iface{}}
			}
			if b, ok := v.T.(*types.Basic); ok {
				switch {
				case b.Info()&types.IsString != 0:
					return Tuple{v.V, Iface{}}
				case b.Info()&types.IsInteger != 0:
					return Tuple{fromTerm(FromInt(toTerm(v.V))), Iface{}}
				case b.Info()&types.IsBoolean != 0:
					return Tuple{fromTerm(Ite(toTerm(v.V), StrT("true"), StrT("false"))), Iface{}}
				}
			}
			if typeIsString(v.T) {
				return Tuple{v.V, Iface{}}
			}
			return Tuple{"", m.newError("type " + typeName(v) + " is not supported")}
		},
	} {
		intrinsics[k] = v
	}
}

func typeName(i Iface) string {
	if i.T == nil {
		return "<nil>"
	}
	return types.TypeString(i.T, func(p *types.Package) string { return p.Name() })
}

// ---------------------------------------------------------------------------
// errors

func (m *Machine) pkgType(pkg, name string) types.Type {
	p := m.Prog.ImportedPackage(pkg)
	if p == nil {
		unsupported("package %s not loaded", pkg)
	}
	o := p.Pkg.Scope().Lookup(name)
	if o == nil {
		unsupported("type %s.%s not found", pkg, name)
	}
	return o.Type()
}

// newError builds an *errors.errorString.
func (m *Machine) newError(msg Value) Value {
	t := m.pkgType("errors", "errorString")
	return Iface{T: types.NewPointer(t), V: Pointer{C: m.newCell(&Struct{F: []Value{msg}})}}
}

func (m *Machine) newWrapError(msg Value, wrapped Value) Value {
	t := m.pkgType("fmt", "wrapError")
	return Iface{T: types.NewPointer(t), V: Pointer{C: m.newCell(&Struct{F: []Value{msg, wrapped}})}}
}

// errorText calls Error() on an error interface value.
func (m *Machine) errorText(e Iface) Value {
	if e.T == nil {
		return "<nil>"
	}
	ms := m.Prog.MethodSets.MethodSet(e.T)
	sel := ms.Lookup(nil, "Error")
	if sel == nil {
		if hv, ok := e.V.(*HarnessObj); ok {
			return hv.Call(m, "Error", nil)
		}
		unsupported("Error() not found on %s", e.T)
	}
	return m.callClosure(m.Prog.MethodValue(sel), nil, []Value{e.V})
}

func inErrorf(m *Machine, fn *ssa.Function, a []Value) Value {
	s, wrapped := m.sprintf(a[0], a[1].(Slice))
	if wrapped != nil {
		return m.newWrapError(s, *wrapped)
	}
	return m.newError(s)
}

func inErrorsIs(m *Machine, fn *ssa.Function, a []Value) Value {
	unsupported("errors.Is")
	return nil
}

// ---------------------------------------------------------------------------
// fmt

// sprintf interprets a constant format. Returns the string and the %w operand.
func (m *Machine) sprintf(format Value, args Slice) (Value, *Value) {
	f, ok := format.(string)
	if !ok {
		unsupported("fmt: non-constant format string")
	}
	ops := sliceElems(args)
	var parts []*Term
	var wrapped *Value
	ai := 0
	for i := 0; i < len(f); i++ {
		c := f[i]
		if c != '%' {
			j := i
			for j < len(f) && f[j] != '%' {
				j++
			}
			parts = append(parts, StrT(f[i:j]))
			i = j - 1
			continue
		}
		i++
		if i >= len(f) {
			unsupported("fmt: dangling %%")
		}
		if f[i] == '%' {
			parts = append(parts, StrT("%"))
			continue
		}
		flags := ""
		for strings.ContainsRune("+#-0 ", rune(f[i])) {
			flags += string(f[i])
			i++
		}
		verb := f[i]
		if ai >= len(ops) {
			parts = append(parts, StrT("%!"+string(verb)+"(MISSING)"))
			continue
		}
		op := ops[ai].(Iface)
		op.V = forceLazy(op.V)
		ai++
		switch verb {
		case 'w':
			w := Value(op)
			wrapped = &w
			parts = append(parts, toTerm(m.errorText(op)))
		case 's', 'v':
			if flags == "#" && verb == 'v' {
				parts = append(parts, m.goSyntax(op))
			} else {
				parts = append(parts, m.fmtValue(op))
			}
		case 'd':
			parts = append(parts, m.fmtValue(op))
		case 'q':
			sv, ok := op.V.(string)
			if st, isT := op.V.(*Term); isT && st.Sort == SString {
				parts = append(parts, Quote(st))
			} else if ok {
				parts = append(parts, Quote(StrT(sv)))
			} else {
				unsupported("fmt: %%q of %T", op.V)
			}
		case 'T':
			parts = append(parts, StrT(typeName(op)))
		default:
			unsupported("fmt: verb %%%s%c", flags, verb)
		}
	}
	return fromTerm(Concat(parts...)), wrapped
}

// fmtValue renders an operand the way %v / %s / %d do for the kinds this
// code base prints.
func (m *Machine) fmtValue(op Iface) *Term {
	if op.T == nil {
		return StrT("<nil>")
	}
	switch v := op.V.(type) {
	case *SymFloat:
		return v.Text
	case float64:
		return StrT(strconv.FormatFloat(v, 'g', -1, 64))
	case string:
		return StrT(v)
	case int64:
		if b, ok := op.T.Underlying().(*types.Basic); ok && b.Info()&types.IsUnsigned != 0 {
			return StrT(strconv.FormatUint(uint64(v), 10))
		}
		// named integer types with a String method
		if t := m.stringerText(op); t != nil {
			return t
		}
		return StrT(strconv.FormatInt(v, 10))
	case bool:
		return StrT(strconv.FormatBool(v))
	case *Term:
		switch v.Sort {
		case SString:
			return v
		case SInt:
			if t := m.stringerText(op); t != nil {
				return t
			}
			return FromInt(v)
		case SBool:
			return Ite(v, StrT("true"), StrT("false"))
		}
	}
	// error or Stringer
	ms := m.Prog.MethodSets.MethodSet(op.T)
	if sel := ms.Lookup(nil, "Error"); sel != nil {
		return toTerm(m.errorText(op))
	}
	if t := m.stringerText(op); t != nil {
		return t
	}
	if hv, ok := op.V.(*HarnessObj); ok {
		return toTerm(hv.Call(m, "Error", nil))
	}
	unsupported("fmt: cannot format %s", typeName(op))
	return nil
}

func (m *Machine) stringerText(op Iface) *Term {
	if _, basic := op.T.(*types.Basic); basic {
		return nil
	}
	ms := m.Prog.MethodSets.MethodSet(op.T)
	if sel := ms.Lookup(nil, "String"); sel != nil {
		fn := m.Prog.MethodValue(sel)
		if fn != nil {
			return toTerm(m.callClosure(fn, nil, []Value{op.V}))
		}
	}
	return nil
}

// goSyntax renders %#v for []string.
func (m *Machine) goSyntax(op Iface) *Term {
	if sl, ok := op.T.Underlying().(*types.Slice); ok && typeIsString(sl.Elem()) {
		s := op.V.(Slice)
		parts := []*Term{StrT("[]string{")}
		for i, e := range sliceElems(s) {
			if i > 0 {
				parts = append(parts, StrT(", "))
			}
			parts = append(parts, Quote(toTerm(e)))
		}
		parts = append(parts, StrT("}"))
		return Concat(parts...)
	}
	unsupported("fmt: %%#v of %s", typeName(op))
	return nil
}

// export models exporter.Export for the YAML scalar kinds (DESIGN 3.9).
func (m *Machine) export(v Iface) (Value, bool) {
	v.V = forceLazy(v.V)
	if v.T == nil {
		return "nil", true
	}
	if sf, ok := v.V.(*SymFloat); ok {
		return fromTerm(Concat(StrT("float64("), sf.Text, StrT(")"))), true
	}
	b, ok := v.T.(*types.Basic) // exporter rejects named types (PkgPath != "")
	if !ok {
		if _, isSlice := v.T.Underlying().(*types.Slice); isSlice {
			return nil, false
		}
		return nil, false
	}
	switch {
	case b.Info()&types.IsString != 0:
		return fromTerm(Quote(toTerm(v.V))), true
	case b.Info()&types.IsBoolean != 0:
		return fromTerm(Ite(toTerm(v.V), StrT("true"), StrT("false"))), true
	case b.Info()&types.IsInteger != 0:
		var num *Term
		if i, ok := v.V.(int64); ok && b.Info()&types.IsUnsigned != 0 {
			num = StrT(strconv.FormatUint(uint64(i), 10))
		} else {
			num = FromInt(toTerm(v.V))
		}
		return fromTerm(Concat(StrT(b.Name()+"("), num, StrT(")"))), true
	case b.Info()&types.IsFloat != 0:
		if f, ok := v.V.(float64); ok {
			return b.Name() + "(" + strconv.FormatFloat(f, 'f', -1, 64) + ")", true
		}
	}
	return nil, false
}

// ---------------------------------------------------------------------------
// strings

func inHasPrefix(m *Machine, fn *ssa.Function, a []Value) Value {
	return fromTerm(PrefixOf(toTerm(a[1]), toTerm(a[0])))
}
func inHasSuffix(m *Machine, fn *ssa.Function, a []Value) Value {
	return fromTerm(SuffixOf(toTerm(a[1]), toTerm(a[0])))
}
func inContains(m *Machine, fn *ssa.Function, a []Value) Value {
	return fromTerm(Contains(toTerm(a[0]), toTerm(a[1])))
}
func inIndex(m *Machine, fn *ssa.Function, a []Value) Value {
	s, sub := toTerm(a[0]), toTerm(a[1])
	if !s.IsConst() {
		// rune index == byte index only before the first non-ASCII rune; the
		// repo only compares the result with 0, where both agree.
	}
	return fromTerm(IndexOf(s, sub, IntT(0)))
}
func inJoin(m *Machine, fn *ssa.Function, a []Value) Value {
	sep := toTerm(a[1])
	var parts []*Term
	for i, e := range sliceElems(a[0].(Slice)) {
		if i > 0 {
			parts = append(parts, sep)
		}
		parts = append(parts, toTerm(e))
	}
	return fromTerm(Concat(parts...))
}

func (m *Machine) stringSlice(ss []Value) Value {
	if ss == nil {
		return Slice{}
	}
	arr := &Array{E: append([]Value(nil), ss...)}
	return Slice{C: m.newCell(arr), Len: len(ss), Cap: len(ss)}
}

func inSplit(m *Machine, fn *ssa.Function, a []Value) Value {
	s, sep := toTerm(a[0]), toTerm(a[1])
	if s.IsConst() && sep.IsConst() {
		var out []Value
		for _, p := range strings.Split(s.S, sep.S) {
			out = append(out, p)
		}
		return m.stringSlice(out)
	}
	if !sep.IsConst() || len([]rune(sep.S)) != 1 {
		unsupported("strings.Split with symbolic or multi-rune separator")
	}
	// the decomposition of a given subject is computed once per path, so that
	// repeated calls see the same parts (Split is a function)
	memoKey := "split:" + sep.S + ":" + s.Key()
	if prev, ok := m.env[memoKey].([]Value); ok {
		return m.stringSlice(prev)
	}
	defer func() {
		if r := recover(); r != nil {
			panic(r)
		}
	}()
	// fork on the number of separators k; s = p0 sep p1 ... pk, no pi contains sep
	maxK := m.Cfg.MaxStrLen/2 + 1
	var out []Value
	rest := s
	for k := 0; ; k++ {
		if k > maxK {
			m.Res.UnwindChecks++
			unsupported("UNWIND-INSUFFICIENT: strings.Split yields more than %d parts", maxK)
		}
		if !m.branch(fromTerm(Contains(rest, sep))) {
			out = append(out, fromTerm(rest))
			break
		}
		p := m.freshVar("split", SString)
		q := m.freshVar("split", SString)
		m.assume(Eq(rest, Concat(p, sep, q)))
		m.assume(Not(Contains(p, sep)))
		out = append(out, p)
		rest = q
	}
	m.env[memoKey] = out
	return m.stringSlice(out)
}

func inTrim(m *Machine, fn *ssa.Function, a []Value) Value {
	s, cut := toTerm(a[0]), toTerm(a[1])
	if s.IsConst() && cut.IsConst() {
		return strings.Trim(s.S, cut.S)
	}
	if !cut.IsConst() || len([]rune(cut.S)) != 1 {
		unsupported("strings.Trim with symbolic or multi-rune cutset")
	}
	cur := s
	for n := 0; ; n++ {
		if n > m.Cfg.MaxStrLen+1 {
			unsupported("UNWIND-INSUFFICIENT: strings.Trim")
		}
		if !m.branch(fromTerm(PrefixOf(cut, cur))) {
			break
		}
		cur = Substr(cur, IntT(1), Sub(Len(cur), IntT(1)))
	}
	for n := 0; ; n++ {
		if n > m.Cfg.MaxStrLen+1 {
			unsupported("UNWIND-INSUFFICIENT: strings.Trim")
		}
		if !m.branch(fromTerm(SuffixOf(cut, cur))) {
			break
		}
		cur = Substr(cur, IntT(0), Sub(Len(cur), IntT(1)))
	}
	return fromTerm(cur)
}

func inTrimPrefix(m *Machine, fn *ssa.Function, a []Value) Value {
	s, p := toTerm(a[0]), toTerm(a[1])
	if s.IsConst() && p.IsConst() {
		return strings.TrimPrefix(s.S, p.S)
	}
	if m.branch(fromTerm(PrefixOf(p, s))) {
		// strip: if s is a concat starting with p the simplifier does it
		sp := concatParts(s)
		if len(sp) > 0 && sp[0].Key() == p.Key() {
			return fromTerm(Concat(sp[1:]...))
		}
		if p.IsConst() && len(sp) > 0 && sp[0].IsConst() && strings.HasPrefix(sp[0].S, p.S) {
			return fromTerm(Concat(append([]*Term{StrT(sp[0].S[len(p.S):])}, sp[1:]...)...))
		}
		return fromTerm(Substr(s, Len(p), Sub(Len(s), Len(p))))
	}
	return fromTerm(s)
}

func inTrimSuffix(m *Machine, fn *ssa.Function, a []Value) Value {
	s, p := toTerm(a[0]), toTerm(a[1])
	if s.IsConst() && p.IsConst() {
		return strings.TrimSuffix(s.S, p.S)
	}
	if m.branch(fromTerm(SuffixOf(p, s))) {
		return fromTerm(Substr(s, IntT(0), Sub(Len(s), Len(p))))
	}
	return fromTerm(s)
}

func inReplace(m *Machine, fn *ssa.Function, a []Value) Value {
	s, old, nw := toTerm(a[0]), toTerm(a[1]), toTerm(a[2])
	n, ok := a[3].(int64)
	if !ok {
		unsupported("strings.Replace with symbolic count")
	}
	if s.IsConst() && old.IsConst() && nw.IsConst() {
		return strings.Replace(s.S, old.S, nw.S, int(n))
	}
	if n != 1 {
		unsupported("strings.Replace with n != 1 on symbolic strings")
	}
	// prefix case (the only use: decorateImport after Index(...)==0)
	if PrefixOf(old, s).IsConst() && PrefixOf(old, s).B {
		sp := concatParts(s)
		if len(sp) > 0 && sp[0].Key() == old.Key() {
			return fromTerm(Concat(append([]*Term{nw}, sp[1:]...)...))
		}
	}
	if m.pcKeys[PrefixOf(old, s).Key()] && !(old.IsConst() && old.S == "") {
		return fromTerm(Concat(nw, Substr(s, Len(old), Sub(Len(s), Len(old)))))
	}
	return fromTerm(Replace(s, old, nw))
}

func inRepeat(m *Machine, fn *ssa.Function, a []Value) Value {
	n := m.concretizeInt(a[1], -200, 200, "strings.Repeat count")
	if n < 0 {
		panic(goPanic{msg: "strings: negative Repeat count"})
	}
	s := toTerm(a[0])
	parts := make([]*Term, n)
	for i := range parts {
		parts[i] = s
	}
	return fromTerm(Concat(parts...))
}

func inFormatInt(m *Machine, fn *ssa.Function, a []Value) Value {
	i, ok1 := a[0].(int64)
	b, ok2 := a[1].(int64)
	if !ok1 || !ok2 {
		unsupported("strconv.FormatInt with symbolic operands")
	}
	return strconv.FormatInt(i, int(b))
}

// ---------------------------------------------------------------------------
// sort

func inSortSlice(m *Machine, fn *ssa.Function, a []Value) Value {
	s := a[0].(Iface).V.(Slice)
	less := a[1]
	m.insertionSort(s, func(i, j int) bool {
		return m.branch(m.callValue(less, []Value{int64(i), int64(j)}))
	})
	return nil
}

func inSortStrings(m *Machine, fn *ssa.Function, a []Value) Value {
	s := a[0].(Slice)
	m.insertionSort(s, func(i, j int) bool {
		e := sliceElems(s)
		return m.branch(fromTerm(StrLt(toTerm(e[i]), toTerm(e[j]))))
	})
	return nil
}

// insertionSort is stable; it swaps inside the backing array so that a `less`
// closure indexing the slice sees the current order.
func (m *Machine) insertionSort(s Slice, less func(i, j int) bool) {
	for i := 1; i < s.Len; i++ {
		for j := i; j > 0 && less(j, j-1); j-- {
			arr := s.C.V.(*Array)
			ne := append([]Value(nil), arr.E...)
			ne[s.Off+j], ne[s.Off+j-1] = ne[s.Off+j-1], ne[s.Off+j]
			s.C.V = &Array{E: ne}
		}
	}
}

// ---------------------------------------------------------------------------
// regexp

func inRegexpCompile(m *Machine, fn *ssa.Function, a []Value) Value {
	p, ok := a[0].(string)
	if !ok {
		unsupported("regexp.MustCompile with symbolic pattern")
	}
	re, err := CompileRegex(p)
	if err != nil {
		unsupported("regexp: %v", err)
	}
	return Pointer{C: m.newCell(&Native{Kind: "regexp", Re: re})}
}

func regexOf(v Value) *Regex {
	return v.(Pointer).C.V.(*Native).Re
}

func inMatchString(m *Machine, fn *ssa.Function, a []Value) Value {
	return fromTerm(InRe(toTerm(a[1]), regexOf(a[0])))
}

func inSubexpNames(m *Machine, fn *ssa.Function, a []Value) Value {
	var out []Value
	for _, n := range regexOf(a[0]).Go.SubexpNames() {
		out = append(out, n)
	}
	return m.stringSlice(out)
}


func inFindStringSubmatch(m *Machine, fn *ssa.Function, a []Value) Value {
	re := regexOf(a[0])
	s := toTerm(a[1])
	if s.IsConst() {
		res := re.Go.FindStringSubmatch(s.S)
		if res == nil {
			return Slice{}
		}
		var out []Value
		for _, r := range res {
			out = append(out, r)
		}
		return m.stringSlice(out)
	}
	if !m.branch(fromTerm(InRe(s, re))) {
		return Slice{}
	}
	memoKey := "submatch:" + re.Pattern + ":" + s.Key()
	if prev, ok := m.env[memoKey].([]Value); ok {
		return m.stringSlice(prev)
	}
	names := re.Go.SubexpNames()
	out := make([]Value, len(names))
	out[0] = fromTerm(s)
	for i, n := range names {
		if i == 0 {
			continue
		}
		if n == "" {
			out[i] = &Native{Kind: "unnamed-capture"} // unspecified; any use is rejected
			continue
		}
		// a capture is decomposed (existentially, DESIGN 3.5) only if the
		// program uses it; its uniqueness is an obligation at that point
		name := n
		var forced *Term
		out[i] = &Native{Kind: "lazy-capture", Force: func() *Term {
			if forced == nil {
				// smallest bound on the subject's length (the greedy look-ahead is unrolled that far)
				bound := -1
				for _, k := range []int{2, 4, 6, 8, 10, 12, 16, 20, 24} {
					if k > m.Cfg.MaxStrLen+8 {
						break
					}
					if m.feasible(Gt(Len(s), IntT(int64(k)))) == Unsat {
						bound = k
						break
					}
				}
				if bound < 0 {
					m.Res.UnwindChecks++
					unsupported("UNWIND-INSUFFICIENT: regexp subject has no length bound <= %d on this path", m.Cfg.MaxStrLen+8)
				}
				d, err := DecomposeBounded(re.Pattern, s, m.freshVar, map[string]bool{name: true}, bound)
				if err != nil {
					unsupported("regexp captures: %v", err)
				}
				m.captureLog = append(m.captureLog, captureRec{re: re, subject: s, name: name, capture: d.Captures[name]})
				m.assume(d.Constraint)
				forced = d.Captures[name]
			}
			return forced
		}}
	}
	m.env[memoKey] = out
	return m.stringSlice(out)
}

var (
	uniqMu    sync.Mutex
	uniqCache = map[string]bool{} // pattern + "\x00" + capture -> unambiguous for every subject (bounded)
)

func (m *Machine) twoDecomps(re *Regex, name, tagA, tagB string, subj *Term) (*Decomp, *Decomp) {
	mk := func(tag string) *Decomp {
		n := 0
		d, err := DecomposeBounded(re.Pattern, subj, func(p string, so Sort) *Term {
			n++
			return VarT(fmt.Sprintf("uq%s_%s_%d", tag, sanitizeName(p), n), so)
		}, map[string]bool{name: true}, m.Cfg.MaxStrLen+2)
		if err != nil {
			unsupported("regexp captures: %v", err)
		}
		return d
	}
	return mk(tagA), mk(tagB)
}

// captureUniqueGlobally: no subject (up to a length bound) has two parses
// that differ in this capture (DESIGN 3.5). Cached per pattern and capture.
func (m *Machine) captureUniqueGlobally(re *Regex, name string) bool {
	key := re.Pattern + "\x00" + name
	uniqMu.Lock()
	defer uniqMu.Unlock()
	if known, ok := uniqCache[key]; ok {
		return known
	}
	subj := VarT("uq_subject", SString)
	d1, d2 := m.twoDecomps(re, name, "a", "b", subj)
	q := []*Term{Le(Len(subj), IntT(int64(m.Cfg.MaxStrLen+2))), d1.Constraint, d2.Constraint, Not(Eq(d1.Captures[name], d2.Captures[name]))}
	r := m.Solver.Check(q)
	uniqCache[key] = r == Unsat
	return r == Unsat
}

// captureUniqueOnPath: under the path condition the capture has a single
// value; otherwise the run is inconclusive.
func (m *Machine) captureUniqueOnPath(re *Regex, s *Term, name string) {
	d1, d2 := m.twoDecomps(re, name, "c", "d", s)
	if r, model := m.Solver.CheckPCModel(m.pc, []*Term{d1.Constraint, d2.Constraint, Not(Eq(d1.Captures[name], d2.Captures[name]))}, []*Term{s, d1.Captures[name], d2.Captures[name]}); r != Unsat {
		w := ""
		if r == Sat {
			w = fmt.Sprintf(" e.g. subject %q: %q or %q", model[s.Key()].S, model[d1.Captures[name].Key()].S, model[d2.Captures[name].Key()].S)
		}
		unsupported("AMBIGUOUS-CAPTURE: group %q of %q has more than one parse for some subject on this path (%v)%s", name, truncate(re.Pattern, 60), r, w)
	}
}

func inReplaceAllString(m *Machine, fn *ssa.Function, a []Value) Value {
	re := regexOf(a[0])
	s, repl := toTerm(a[1]), toTerm(a[2])
	if s.IsConst() && repl.IsConst() {
		return re.Go.ReplaceAllString(s.S, repl.S)
	}
	tree, err := syntax.Parse(re.Pattern, syntax.Perl)
	if err != nil || tree.Op != syntax.OpCharClass || !repl.IsConst() || len([]rune(repl.S)) != 1 || strings.ContainsAny(repl.S, "$") {
		unsupported("ReplaceAllString: only single character-class patterns with a one-rune replacement are modelled")
	}
	cls, _ := reLang(tree)
	// an uninterpreted function of the subject (so that equal subjects give
	// equal results) with the contract: same length; every position either
	// unchanged and outside the class, or the replacement; identity iff the
	// subject has no character of the class.
	h := fnv.New32a()
	h.Write([]byte(re.Pattern + "\x00" + repl.S))
	name := fmt.Sprintf("FSrepl%x", h.Sum32())
	noCls := &Regex{Pattern: "nocls", SMT: "(re.* (re.diff re.allchar " + cls + "))"}
	outLang := &Regex{Pattern: "outlang", SMT: "(re.* (re.union (re.diff re.allchar " + cls + ") (str.to_re " + smtStringLit(repl.S) + ")))"}
	RegisterAppAxioms(name, func(app *Term) []*Term {
		arg := app.Args[0]
		in := func(t *Term, r *Regex) *Term { return &Term{Op: "in_re", Args: []*Term{t}, Sort: SBool, Re: r} }
		eq := &Term{Op: "=", Args: []*Term{app, arg}, Sort: SBool}
		return []*Term{
			&Term{Op: "=", Args: []*Term{&Term{Op: "str.len", Args: []*Term{app}, Sort: SInt}, Len(arg)}, Sort: SBool},
			in(app, outLang),
			Implies(in(arg, noCls), eq),
			Implies(eq, in(arg, outLang)),
		}
	})
	return fromTerm(App(name, SString, s))
}

// ---------------------------------------------------------------------------
// reflect (only what types.IsPrimitive and the reserved-getter init use)

func (m *Machine) rtype(t types.Type) Value {
	rt := m.pkgType("reflect", "rtype")
	return Iface{T: types.NewPointer(rt), V: Pointer{C: m.newCell(&Native{Kind: "rtype", RT: t})}}
}

func inReflectTypeOf(m *Machine, fn *ssa.Function, a []Value) Value {
	i := a[0].(Iface)
	if i.T == nil {
		return Iface{}
	}
	return m.rtype(i.T)
}

func nativeOf(v Value) *Native { return v.(Pointer).C.V.(*Native) }

var basicKindToReflect = map[types.BasicKind]int64{
	types.Bool: 1, types.Int: 2, types.Int8: 3, types.Int16: 4, types.Int32: 5, types.Int64: 6,
	types.Uint: 7, types.Uint8: 8, types.Uint16: 9, types.Uint32: 10, types.Uint64: 11, types.Uintptr: 12,
	types.Float32: 13, types.Float64: 14, types.Complex64: 15, types.Complex128: 16,
	types.String: 24, types.UnsafePointer: 26,
}

func inRtypeKind(m *Machine, fn *ssa.Function, a []Value) Value {
	t := nativeOf(a[0]).RT
	switch u := t.Underlying().(type) {
	case *types.Basic:
		if k, ok := basicKindToReflect[u.Kind()]; ok {
			return k
		}
	case *types.Array:
		return int64(17)
	case *types.Chan:
		return int64(18)
	case *types.Signature:
		return int64(19)
	case *types.Interface:
		return int64(20)
	case *types.Map:
		return int64(21)
	case *types.Pointer:
		return int64(22)
	case *types.Slice:
		return int64(23)
	case *types.Struct:
		return int64(25)
	}
	unsupported("reflect.Kind of %v", t)
	return nil
}

func exportedMethods(t types.Type) []string {
	ms := types.NewMethodSet(t)
	var names []string
	for i := 0; i < ms.Len(); i++ {
		if f := ms.At(i).Obj(); f.Exported() {
			names = append(names, f.Name())
		}
	}
	sort.Strings(names)
	return names
}

func inRtypeNumMethod(m *Machine, fn *ssa.Function, a []Value) Value {
	return int64(len(exportedMethods(nativeOf(a[0]).RT)))
}

func inRtypeMethod(m *Machine, fn *ssa.Function, a []Value) Value {
	names := exportedMethods(nativeOf(a[0]).RT)
	i := a[1].(int64)
	if i < 0 || int(i) >= len(names) {
		panic(goPanic{msg: "reflect: Method index out of range"})
	}
	mt := m.pkgType("reflect", "Method")
	z := zero(mt).(*Struct)
	z.F[0] = names[i]
	return z
}

// ---------------------------------------------------------------------------
// gontainer-helpers/v3/graph: abstract graph (DESIGN 3.9). Node identity is
// decided by forking on equality of the (possibly symbolic) node names.

type graphState struct {
	names []Value // distinct node names (pairwise distinct under PC)
	edges [][2]int
}

func inGraphNew(m *Machine, fn *ssa.Function, a []Value) Value {
	gs := &graphState{}
	obj := &HarnessObj{Kind: "graph"}
	obj.Call = func(m *Machine, method string, args []Value) Value {
		switch method {
		case "AddDep":
			f := gs.node(m, args[0])
			t := gs.node(m, args[1])
			gs.edges = append(gs.edges, [2]int{f, t})
			return nil
		case "Deps":
			n := gs.node(m, args[0])
			reach := gs.reach()
			var out []int
			for j := range gs.names {
				if j != n && reach[n][j] {
					out = append(out, j)
				}
			}
			vals := make([]Value, len(out))
			for i, j := range out {
				vals[i] = gs.names[j]
			}
			// the real library returns the set in lexical order; the order is
			// not modelled (it would fork on str.< of symbolic names): callers
			// must not depend on it beyond the order of their own diagnostics.
			return m.stringSlice(vals)
		case "CircularDeps":
			// abstract: one cycle through each node lying on a cycle (each
			// cycle reported once, starting from its smallest node index).
			reach := gs.reach()
			var cycles []Value
			seen := map[int]bool{}
			for i := range gs.names {
				if !reach[i][i] || seen[i] {
					continue
				}
				cyc := gs.cycleThrough(i, reach)
				var vs []Value
				for _, j := range cyc {
					seen[j] = true
					vs = append(vs, gs.names[j])
				}
				vs = append(vs, gs.names[cyc[0]])
				cycles = append(cycles, m.stringSlice(vs))
			}
			if cycles == nil {
				return Slice{}
			}
			return Slice{C: m.newCell(&Array{E: cycles}), Len: len(cycles), Cap: len(cycles)}
		}
		unsupported("graph method %s", method)
		return nil
	}
	return obj
}

func (g *graphState) node(m *Machine, name Value) int {
	if len(g.names) > 0 {
		n := len(g.names)
		conds := make([]*Term, n+1)
		var none []*Term
		for i, nm := range g.names {
			conds[i] = Eq(toTerm(nm), toTerm(name))
			none = append(none, Not(conds[i]))
		}
		conds[n] = And(none...)
		alt := m.choose(n+1, true, func(i int) *Term { return conds[i] })
		if alt < n {
			return alt
		}
	}
	g.names = append(g.names, name)
	return len(g.names) - 1
}

func (g *graphState) reach() [][]bool {
	n := len(g.names)
	r := make([][]bool, n)
	for i := range r {
		r[i] = make([]bool, n)
	}
	for _, e := range g.edges {
		r[e[0]][e[1]] = true
	}
	for k := 0; k < n; k++ {
		for i := 0; i < n; i++ {
			for j := 0; j < n; j++ {
				if r[i][k] && r[k][j] {
					r[i][j] = true
				}
			}
		}
	}
	return r
}

// cycleThrough returns a simple cycle through node s (BFS for a shortest
// path back to s).
func (g *graphState) cycleThrough(s int, reach [][]bool) []int {
	n := len(g.names)
	prev := make([]int, n)
	for i := range prev {
		prev[i] = -2
	}
	queue := []int{}
	for _, e := range g.edges {
		if e[0] == s {
			if e[1] == s {
				return []int{s}
			}
			if prev[e[1]] == -2 {
				prev[e[1]] = -1
				queue = append(queue, e[1])
			}
		}
	}
	for len(queue) > 0 {
		u := queue[0]
		queue = queue[1:]
		for _, e := range g.edges {
			if e[0] != u {
				continue
			}
			if e[1] == s {
				path := []int{}
				for x := u; x >= 0; x = prev[x] {
					path = append([]int{x}, path...)
					if prev[x] == -1 {
						break
					}
				}
				return append([]int{s}, path...)
			}
			if prev[e[1]] == -2 {
				prev[e[1]] = u
				queue = append(queue, e[1])
			}
		}
	}
	return []int{s}
}
