package engine

import (
	"fmt"
	"go/types"
	"sort"

	"golang.org/x/tools/go/ssa"
)

// Model of the gontainer-helpers runtime container (DESIGN 3.10). It exists
// so that the engine can execute the repository's *own* wiring
// (internal/gontainer.New, buildRunner) exactly as shipped. Names and
// priorities in that wiring are concrete; the model is not used for user
// configurations.

const helpers = "github.com/gontainer/gontainer-helpers/v3/"

type cDep struct {
	kind string // "service", "value", "tag", "provider", "param", "container"
	id   string
	val  Value // any (Iface)
	fn   Value // provider func (Iface)
}

type cCall struct {
	method string
	deps   []*cDep
	wither bool
}

type cField struct {
	name string
	dep  *cDep
}

type cService struct {
	hasValue bool
	value    Value
	ctor     Value // Iface holding a func, or nil
	ctorDeps []*cDep
	calls    []cCall
	fields   []cField
	tags     map[string]int64
	scope    string
}

type cDecorator struct {
	tag  string
	fn   Value
	deps []*cDep
}

type cContainer struct {
	services   map[string]*cService
	params     map[string]*cDep
	decorators []cDecorator
	cacheSvc   map[string]Value
	cacheParam map[string]Value
	creating   map[string]bool
}

func anyIface() types.Type { return types.NewInterfaceType(nil, nil) }

// toAny wraps a value of static type t into an `any`.
func toAny(v Value, t types.Type) Value {
	if types.IsInterface(t) {
		if v == nil {
			return Iface{}
		}
		return v
	}
	return Iface{T: t, V: v}
}

// fromAny converts an `any` to a value of static type target.
func fromAny(a Value, target types.Type) Value {
	i, ok := a.(Iface)
	if !ok {
		return a
	}
	if types.IsInterface(target) {
		return i
	}
	if i.T == nil {
		return zero(target)
	}
	return i.V
}

func (m *Machine) cstr(v Value) string {
	s, ok := v.(string)
	if !ok {
		unsupported("runtime container model: identifier must be a concrete string, got %s", describe(v))
	}
	return s
}

// callAny calls a func held in an `any` with `any` arguments, converting
// arguments to the parameter types (caller.CallProvider with convertArgs).
// It returns the results as `any` values.
func (m *Machine) callAny(fn Value, args []Value) []Value {
	fi, ok := fn.(Iface)
	if !ok || fi.T == nil {
		panic(goPanic{msg: "container: provider is not a func"})
	}
	sig, ok := fi.T.Underlying().(*types.Signature)
	if !ok {
		panic(goPanic{msg: fmt.Sprintf("container: %s is not a func", fi.T)})
	}
	np := sig.Params().Len()
	var in []Value
	if sig.Variadic() {
		if len(args) < np-1 {
			panic(goPanic{msg: fmt.Sprintf("container: not enough arguments in call to %s", fi.T)})
		}
		for i := 0; i < np-1; i++ {
			in = append(in, fromAny(args[i], sig.Params().At(i).Type()))
		}
		et := sig.Params().At(np - 1).Type().(*types.Slice).Elem()
		var rest []Value
		for _, a := range args[np-1:] {
			rest = append(rest, fromAny(a, et))
		}
		if len(rest) == 0 {
			in = append(in, Slice{})
		} else {
			in = append(in, Slice{C: m.newCell(&Array{E: rest}), Len: len(rest), Cap: len(rest)})
		}
	} else {
		if len(args) != np {
			panic(goPanic{msg: fmt.Sprintf("container: wrong number of arguments in call to %s: %d given", fi.T, len(args))})
		}
		for i := 0; i < np; i++ {
			in = append(in, fromAny(args[i], sig.Params().At(i).Type()))
		}
	}
	res := m.callValue(fi.V, in)
	var out []Value
	switch sig.Results().Len() {
	case 0:
	case 1:
		out = append(out, toAny(res, sig.Results().At(0).Type()))
	default:
		t := res.(Tuple)
		for i := range t {
			out = append(out, toAny(t[i], sig.Results().At(i).Type()))
		}
	}
	return out
}

// callProvider: a provider returns (value) or (value, error).
func (m *Machine) callProvider(fn Value, args []Value) (Value, Value) {
	out := m.callAny(fn, args)
	switch len(out) {
	case 1:
		return out[0], Iface{}
	case 2:
		return out[0], out[1]
	}
	panic(goPanic{msg: "container: provider must return 1 or 2 values"})
}

func isNilErr(v Value) bool {
	i, ok := v.(Iface)
	return ok && i.T == nil
}

func (m *Machine) containerOf(v Value) *cContainer {
	p, ok := v.(Pointer)
	if !ok || p.C == nil {
		panic(goPanic{msg: "nil container"})
	}
	n := p.C.V.(*Native)
	if n.Any == nil {
		n.Any = &cContainer{services: map[string]*cService{}, params: map[string]*cDep{}, cacheSvc: map[string]Value{}, cacheParam: map[string]Value{}, creating: map[string]bool{}}
	}
	return n.Any.(*cContainer)
}

func (m *Machine) serviceOf(v Value) *cService {
	var n *Native
	switch x := v.(type) {
	case Pointer:
		n = x.C.V.(*Native)
	case *Native:
		n = x
	default:
		unsupported("runtime container model: Service value %T", v)
	}
	if n.Any == nil {
		n.Any = &cService{tags: map[string]int64{}, scope: "default"}
	}
	return n.Any.(*cService)
}

func depOf(v Value) *cDep { return v.(*Native).Any.(*cDep) }

func (m *Machine) depsOf(v Value) []*cDep {
	var out []*cDep
	for _, e := range sliceElems(v.(Slice)) {
		out = append(out, depOf(e))
	}
	return out
}

func (m *Machine) resolveDep(c *cContainer, self Value, d *cDep) (Value, Value) {
	switch d.kind {
	case "value":
		return d.val, Iface{}
	case "service":
		return m.containerGet(c, self, d.id)
	case "param":
		return m.containerGetParam(c, self, d.id)
	case "provider":
		return m.callProvider(d.fn, nil)
	case "container":
		return Iface{T: types.NewPointer(m.pkgType(helpers+"container", "Container")), V: self}, Iface{}
	case "tag":
		var ids []string
		for id, s := range c.services {
			if _, ok := s.tags[d.id]; ok {
				ids = append(ids, id)
			}
		}
		sort.SliceStable(ids, func(i, j int) bool {
			pi, pj := c.services[ids[i]].tags[d.id], c.services[ids[j]].tags[d.id]
			if pi == pj {
				return ids[i] < ids[j]
			}
			return pi > pj
		})
		var vals []Value
		for _, id := range ids {
			v, err := m.containerGet(c, self, id)
			if !isNilErr(err) {
				return Iface{}, err
			}
			vals = append(vals, v)
		}
		sl := Slice{C: m.newCell(&Array{E: vals}), Len: len(vals), Cap: len(vals)}
		return Iface{T: types.NewSlice(anyIface()), V: sl}, Iface{}
	}
	unsupported("runtime container model: dependency kind %q", d.kind)
	return nil, nil
}

func (m *Machine) resolveDeps(c *cContainer, self Value, ds []*cDep) ([]Value, Value) {
	var out []Value
	for _, d := range ds {
		v, err := m.resolveDep(c, self, d)
		if !isNilErr(err) {
			return nil, err
		}
		out = append(out, v)
	}
	return out, Iface{}
}

func (m *Machine) containerGetParam(c *cContainer, self Value, id string) (Value, Value) {
	d, ok := c.params[id]
	if !ok {
		return Iface{}, m.newError(fmt.Sprintf("getParam(%q): param does not exist", id))
	}
	if v, ok := c.cacheParam[id]; ok {
		return v, Iface{}
	}
	v, err := m.resolveDep(c, self, d)
	if !isNilErr(err) {
		return Iface{}, m.newWrapError(fromTerm(Concat(StrT(fmt.Sprintf("getParam(%q): ", id)), toTerm(m.errorText(err.(Iface))))), err)
	}
	c.cacheParam[id] = v
	return v, Iface{}
}

func (m *Machine) containerGet(c *cContainer, self Value, id string) (Value, Value) {
	s, ok := c.services[id]
	if !ok {
		return Iface{}, m.newError(fmt.Sprintf("get(%q): service does not exist", id))
	}
	cached := s.scope == "default" || s.scope == "shared" || s.scope == "contextual"
	if cached {
		if v, ok := c.cacheSvc[id]; ok {
			return v, Iface{}
		}
	}
	if c.creating[id] {
		return Iface{}, m.newError(fmt.Sprintf("get(%q): circular dependencies", id))
	}
	c.creating[id] = true
	defer delete(c.creating, id)
	wrap := func(err Value) Value {
		return m.newWrapError(fromTerm(Concat(StrT(fmt.Sprintf("get(%q): ", id)), toTerm(m.errorText(err.(Iface))))), err)
	}
	var result Value = Iface{}
	if s.hasValue {
		result = s.value
	}
	if s.ctor != nil {
		args, err := m.resolveDeps(c, self, s.ctorDeps)
		if !isNilErr(err) {
			return Iface{}, wrap(err)
		}
		result, err = m.callProvider(s.ctor, args)
		if !isNilErr(err) {
			return Iface{}, wrap(err)
		}
	}
	for _, f := range s.fields {
		v, err := m.resolveDep(c, self, f.dep)
		if !isNilErr(err) {
			return Iface{}, wrap(err)
		}
		result = m.setFieldByName(result, f.name, v)
	}
	for _, call := range s.calls {
		args, err := m.resolveDeps(c, self, call.deps)
		if !isNilErr(err) {
			return Iface{}, wrap(err)
		}
		out := m.callMethodByName(result, call.method, args)
		if call.wither {
			if len(out) != 1 {
				panic(goPanic{msg: "container: a wither must return exactly one value"})
			}
			result = out[0]
		}
	}
	for _, dec := range c.decorators {
		if _, tagged := s.tags[dec.tag]; !tagged {
			continue
		}
		pt := m.pkgType(helpers+"container", "DecoratorPayload")
		payload := Iface{T: pt, V: &Struct{F: []Value{dec.tag, id, result}}}
		args, err := m.resolveDeps(c, self, dec.deps)
		if !isNilErr(err) {
			return Iface{}, wrap(err)
		}
		result, err = m.callProvider(dec.fn, append([]Value{payload}, args...))
		if !isNilErr(err) {
			return Iface{}, wrap(err)
		}
	}
	if cached {
		c.cacheSvc[id] = result
	}
	return result, Iface{}
}

func (m *Machine) callMethodByName(obj Value, name string, args []Value) []Value {
	i := obj.(Iface)
	if i.T == nil {
		panic(goPanic{msg: "container: method call on nil service"})
	}
	sel := m.Prog.MethodSets.MethodSet(i.T).Lookup(nil, name)
	if sel == nil {
		// unexported methods need the package; search by name
		ms := m.Prog.MethodSets.MethodSet(i.T)
		for k := 0; k < ms.Len(); k++ {
			if ms.At(k).Obj().Name() == name {
				sel = ms.At(k)
			}
		}
	}
	if sel == nil {
		panic(goPanic{msg: fmt.Sprintf("container: %s has no method %s", i.T, name)})
	}
	fn := m.Prog.MethodValue(sel)
	sig := fn.Signature
	bound := Iface{T: types.NewSignatureType(nil, nil, nil, sig.Params(), sig.Results(), sig.Variadic()),
		V: &NativeFunc{Name: name, Fn: func(m *Machine, in []Value) Value { return m.callClosure(fn, nil, append([]Value{i.V}, in...)) }}}
	return m.callAny(bound, args)
}

func (m *Machine) setFieldByName(obj Value, name string, v Value) Value {
	i := obj.(Iface)
	pt, ok := i.T.Underlying().(*types.Pointer)
	if !ok {
		unsupported("runtime container model: SetField on non-pointer service %s", i.T)
	}
	st, ok := pt.Elem().Underlying().(*types.Struct)
	if !ok {
		unsupported("runtime container model: SetField on %s", i.T)
	}
	for k := 0; k < st.NumFields(); k++ {
		if st.Field(k).Name() == name {
			i.V.(Pointer).sub(k).store(fromAny(v, st.Field(k).Type()))
			return obj
		}
	}
	panic(goPanic{msg: fmt.Sprintf("container: %s has no field %s", i.T, name)})
}

func init() {
	c := helpers + "container."
	reg := func(name string, f Intrinsic) { intrinsics[name] = f }
	newDep := func(m *Machine, d *cDep) Value { return &Native{Kind: "dependency", Any: d} }
	reg(c+"NewService", func(m *Machine, fn *ssa.Function, a []Value) Value {
		return &Native{Kind: "service", Any: &cService{tags: map[string]int64{}, scope: "default"}}
	})
	reg(c+"NewDependencyService", func(m *Machine, fn *ssa.Function, a []Value) Value {
		return newDep(m, &cDep{kind: "service", id: m.cstr(a[0])})
	})
	reg(c+"NewDependencyParam", func(m *Machine, fn *ssa.Function, a []Value) Value {
		return newDep(m, &cDep{kind: "param", id: m.cstr(a[0])})
	})
	reg(c+"NewDependencyTag", func(m *Machine, fn *ssa.Function, a []Value) Value {
		return newDep(m, &cDep{kind: "tag", id: m.cstr(a[0])})
	})
	reg(c+"NewDependencyValue", func(m *Machine, fn *ssa.Function, a []Value) Value {
		return newDep(m, &cDep{kind: "value", val: a[0]})
	})
	reg(c+"NewDependencyProvider", func(m *Machine, fn *ssa.Function, a []Value) Value {
		return newDep(m, &cDep{kind: "provider", fn: a[0]})
	})
	reg(c+"NewDependencyContainer", func(m *Machine, fn *ssa.Function, a []Value) Value {
		return newDep(m, &cDep{kind: "container"})
	})
	svc := "(*" + helpers + "container.Service)."
	reg(svc+"SetConstructor", func(m *Machine, fn *ssa.Function, a []Value) Value {
		s := m.serviceOf(a[0])
		s.ctor, s.ctorDeps, s.hasValue = a[1], m.depsOf(a[2]), false
		return a[0]
	})
	reg(svc+"SetValue", func(m *Machine, fn *ssa.Function, a []Value) Value {
		s := m.serviceOf(a[0])
		s.value, s.hasValue, s.ctor, s.ctorDeps = a[1], true, nil, nil
		return a[0]
	})
	reg(svc+"AppendCall", func(m *Machine, fn *ssa.Function, a []Value) Value {
		s := m.serviceOf(a[0])
		s.calls = append(s.calls, cCall{method: m.cstr(a[1]), deps: m.depsOf(a[2])})
		return a[0]
	})
	reg(svc+"AppendWither", func(m *Machine, fn *ssa.Function, a []Value) Value {
		s := m.serviceOf(a[0])
		s.calls = append(s.calls, cCall{method: m.cstr(a[1]), deps: m.depsOf(a[2]), wither: true})
		return a[0]
	})
	reg(svc+"SetField", func(m *Machine, fn *ssa.Function, a []Value) Value {
		s := m.serviceOf(a[0])
		s.fields = append(s.fields, cField{name: m.cstr(a[1]), dep: depOf(a[2])})
		return a[0]
	})
	reg(svc+"Tag", func(m *Machine, fn *ssa.Function, a []Value) Value {
		s := m.serviceOf(a[0])
		p, ok := a[2].(int64)
		if !ok {
			unsupported("runtime container model: symbolic tag priority")
		}
		s.tags[m.cstr(a[1])] = p
		return a[0]
	})
	for _, sc := range []string{"Default", "Shared", "Contextual", "NonShared"} {
		sc := sc
		reg(svc+"SetScope"+sc, func(m *Machine, fn *ssa.Function, a []Value) Value {
			m.serviceOf(a[0]).scope = map[string]string{"Default": "default", "Shared": "shared", "Contextual": "contextual", "NonShared": "non_shared"}[sc]
			return a[0]
		})
	}
	cont := "(*" + helpers + "container.Container)."
	reg(cont+"OverrideService", func(m *Machine, fn *ssa.Function, a []Value) Value {
		c := m.containerOf(a[0])
		src := m.serviceOf(a[2])
		cp := *src
		cp.tags = map[string]int64{}
		for k, v := range src.tags {
			cp.tags[k] = v
		}
		id := m.cstr(a[1])
		c.services[id] = &cp
		c.cacheSvc = map[string]Value{}
		return nil
	})
	reg(cont+"OverrideParam", func(m *Machine, fn *ssa.Function, a []Value) Value {
		c := m.containerOf(a[0])
		c.params[m.cstr(a[1])] = depOf(a[2])
		c.cacheParam = map[string]Value{}
		c.cacheSvc = map[string]Value{}
		return nil
	})
	reg(cont+"AddDecorator", func(m *Machine, fn *ssa.Function, a []Value) Value {
		c := m.containerOf(a[0])
		c.decorators = append(c.decorators, cDecorator{tag: m.cstr(a[1]), fn: a[2], deps: m.depsOf(a[3])})
		c.cacheSvc = map[string]Value{}
		return nil
	})
	reg(cont+"Get", func(m *Machine, fn *ssa.Function, a []Value) Value {
		v, err := m.containerGet(m.containerOf(a[0]), a[0], m.cstr(a[1]))
		return Tuple{v, err}
	})
	reg(cont+"GetInContext", func(m *Machine, fn *ssa.Function, a []Value) Value {
		v, err := m.containerGet(m.containerOf(a[0]), a[0], m.cstr(a[2]))
		return Tuple{v, err}
	})
	reg(cont+"GetParam", func(m *Machine, fn *ssa.Function, a []Value) Value {
		v, err := m.containerGetParam(m.containerOf(a[0]), a[0], m.cstr(a[1]))
		return Tuple{v, err}
	})
	reg(cont+"GetTaggedBy", func(m *Machine, fn *ssa.Function, a []Value) Value {
		v, err := m.resolveDep(m.containerOf(a[0]), a[0], &cDep{kind: "tag", id: m.cstr(a[1])})
		if !isNilErr(err) {
			return Tuple{Slice{}, err}
		}
		return Tuple{v.(Iface).V, err}
	})
	reg(helpers+"caller.CallProvider", func(m *Machine, fn *ssa.Function, a []Value) Value {
		v, err := m.callProvider(a[0], sliceElems(a[1].(Slice)))
		return Tuple{v, err}
	})
	reg(helpers+"copier.Copy", func(m *Machine, fn *ssa.Function, a []Value) Value {
		to := a[1].(Iface)
		pt, ok := to.T.Underlying().(*types.Pointer)
		if !ok {
			return m.newError("copier: expected pointer")
		}
		from := a[0].(Iface)
		if from.T != nil && !types.IsInterface(pt.Elem()) && !types.AssignableTo(from.T, pt.Elem()) && !types.ConvertibleTo(from.T, pt.Elem()) {
			return m.newError(fmt.Sprintf("cannot convert %s to %s", from.T, pt.Elem()))
		}
		to.V.(Pointer).store(fromAny(from, pt.Elem()))
		return Iface{}
	})
}
