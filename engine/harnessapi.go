package engine

import (
	"fmt"
	"go/types"
	"os"

	"golang.org/x/tools/go/ssa"
)

// harnessAPI intercepts the vf* vocabulary (DESIGN §4).
func (m *Machine) harnessAPI(fn *ssa.Function, a []Value) (Value, bool) {
	if m.Concrete != nil {
		if v, ok := m.concreteAPI(fn, a); ok {
			return v, true
		}
	}
	switch fn.Name() {
	case "vfString":
		return m.nondetVar(m.constName(a[0]), SString), true
	case "vfInt":
		return m.nondetVar(m.constName(a[0]), SInt), true
	case "vfBool":
		return m.nondetVar(m.constName(a[0]), SBool), true
	case "vfAssume":
		t := toTerm(a[0])
		if t.IsConst() {
			if !t.B {
				panic(pathAbort{"assume false"})
			}
			return nil, true
		}
		switch m.feasible(t) {
		case Unsat:
			panic(pathAbort{"assumption infeasible"})
		case Unknown:
			m.uncertain = true
		}
		m.assume(t)
		return nil, true
	case "vfAssert":
		m.assert(a[0], m.constName(a[1]))
		return nil, true
	case "vfAssertKnown":
		// vfAssertKnown(c, msg, id, pred): a failure with pred is the listed
		// finding <id>; a failure without pred is a new violation (DESIGN 3.17).
		c, pred := toTerm(a[0]), toTerm(a[3])
		msg, id := m.constName(a[1]), m.constName(a[2])
		m.assert(fromTerm(Or(c, pred)), msg)
		m.assert(fromTerm(Or(c, Not(pred))), msg+" [known:"+id+"]")
		return nil, true
	case "vfReadRepoFile":
		b, err := os.ReadFile("/repo/" + m.constName(a[0]))
		if err != nil {
			return "", true
		}
		return string(b), true
	case "vfScratchFile":
		return Pointer{C: m.newCell(&Native{Kind: "file"})}, true
	case "vfItoa":
		return fromTerm(FromInt(toTerm(a[0]))), true
	case "vfOr":
		return fromTerm(Or(toTerm(a[0]), toTerm(a[1]))), true
	case "vfAnd":
		return fromTerm(And(toTerm(a[0]), toTerm(a[1]))), true
	case "vfReach":
		m.reached = append(m.reached, m.constName(a[0]))
		return nil, true
	case "vfRuneLen":
		return fromTerm(Len(toTerm(a[0]))), true
	case "vfChoice":
		n := int(a[1].(int64))
		alt := m.choose(n, true, func(int) *Term { return TrueT })
		m.recordChoice(m.constName(a[0]), int64(alt))
		return int64(alt), true
	case "vfSplitLen":
		max := int(a[1].(int64))
		if t, ok := a[0].(*Term); ok {
			m.concretizeInt(fromTerm(Len(t)), 0, int64(max), "vfSplitLen")
		}
		return nil, true
	case "vfInRe":
		re, err := CompileRegex(m.constName(a[1]))
		if err != nil {
			unsupported("vfInRe: %v", err)
		}
		return fromTerm(InRe(toTerm(a[0]), re)), true
	case "vfBound":
		if m.Cfg.Tier == "thorough" {
			return a[2], true
		}
		return a[1], true
	case "vfTag":
		m.pathTags = append(m.pathTags, m.constName(a[0]))
		return nil, true
	case "vfCharString", "vfASCIIString":
		// a string of exactly n symbolic code points (n concrete on this path)
		name := m.constName(a[0])
		n := int(m.concretizeInt(a[1], 0, 64, "vfCharString length"))
		parts := make([]*Term, n)
		for i := 0; i < n; i++ {
			c := m.nondetVar(fmt.Sprintf("%s[%d]", name, i), SInt)
			hi := int64(maxSMTChar)
			if fn.Name() == "vfASCIIString" {
				hi = 127
			}
			c.Hi = hi
			m.assume(And(Ge(c, IntT(0)), Le(c, IntT(hi))))
			if hi > 0xD7FF {
				m.assume(Or(Lt(c, IntT(0xD800)), Gt(c, IntT(0xDFFF))))
			}
			parts[i] = FromCode(c)
		}
		return fromTerm(Concat(parts...)), true
	case "vfRegister", "vfObserve":
		return nil, true
	case "vfEmitted":
		return m.vfEmitted(fn, a[0]), true
	case "vfTypeErrors":
		return m.vfTypeErrors(a[0], a[1]), true
	case "vfPruneImports":
		return m.vfPruneImports(a[0]), true
	case "vfRuntimeHas":
		return m.runtimeHas(m.constName(a[0]), a[1]), true
	case "vfAny":
		return m.vfAny(m.constName(a[0]), int(a[1].(int64))), true
	case "vfIsSymbolicRun":
		return true, true
	case "vfQuote":
		return fromTerm(Quote(toTerm(a[0]))), true
	case "vfFloatText":
		// text that strconv.FormatFloat(x,'f',-1,64) yields for a finite float
		v := m.nondetVar(m.constName(a[0]), SString)
		m.assume(&Term{Op: "in_re", Args: []*Term{v}, Sort: SBool, Re: floatTextRe})
		return v, true
	}
	return nil, false
}

var floatTextRe = &Regex{Pattern: "floattext", SMT: `(re.++ (re.opt (str.to_re "-")) (re.+ (re.range "0" "9")) (re.opt (re.++ (str.to_re ".") (re.+ (re.range "0" "9")))))`}

func (m *Machine) constName(v Value) string {
	s, ok := v.(string)
	if !ok {
		unsupported("vf*: name/message argument must be a constant string, got %s", describe(v))
	}
	return s
}

func (m *Machine) recordChoice(name string, alt int64) {
	// choices are reported in models under "choice:<name>" (k-th repeat suffixed)
	base := "choice:" + name
	k := m.nondetNames[base]
	m.nondetNames[base] = k + 1
	if k > 0 {
		base = fmt.Sprintf("%s__%d", base, k)
	}
	if m.env["choices"] == nil {
		m.env["choices"] = map[string]int64{}
	}
	m.env["choices"].(map[string]int64)[base] = alt
	m.pathTags = append(m.pathTags, fmt.Sprintf("%s=%d", base, alt))
}

// AnyKinds are the dynamic kinds yaml.v3 produces (DESIGN 3.7).
var AnyKinds = []string{"nil", "string", "int", "bool", "float64", "uint64", "slice", "map", "time"}

func (m *Machine) vfAny(name string, depth int) Value {
	kinds := AnyKinds
	if depth <= 0 {
		kinds = AnyKinds[:6]
	}
	alt := m.choose(len(kinds), true, func(int) *Term { return TrueT })
	m.recordChoice(name+".kind", int64(alt))
	switch kinds[alt] {
	case "nil":
		return Iface{}
	case "string":
		return Iface{T: types.Typ[types.String], V: m.nondetVar(name+".str", SString)}
	case "int":
		v := m.nondetVar(name+".int", SInt)
		m.assume(And(Ge(v, IntT(-1<<62)), Le(v, IntT(1<<62))))
		return Iface{T: types.Typ[types.Int], V: v}
	case "bool":
		return Iface{T: types.Typ[types.Bool], V: m.nondetVar(name+".bool", SBool)}
	case "uint64":
		v := m.nondetVar(name+".uint", SInt)
		m.assume(And(Ge(v, IntT(0)), Le(v, IntT(1<<62))))
		return Iface{T: types.Typ[types.Uint64], V: v}
	case "float64":
		cls := []string{"finite", "+Inf", "-Inf", "NaN"}
		c := m.choose(len(cls), true, func(int) *Term { return TrueT })
		m.recordChoice(name+".fclass", int64(c))
		sf := &SymFloat{Class: cls[c]}
		if c == 0 {
			t := m.nondetVar(name+".ftext", SString)
			m.assume(&Term{Op: "in_re", Args: []*Term{t}, Sort: SBool, Re: floatTextRe})
			sf.Text = t
		} else {
			sf.Text = StrT(cls[c])
		}
		return Iface{T: types.Typ[types.Float64], V: sf}
	case "slice":
		n := m.choose(3, true, func(int) *Term { return TrueT })
		m.recordChoice(name+".len", int64(n))
		es := make([]Value, n)
		for i := range es {
			es[i] = m.vfAny(fmt.Sprintf("%s[%d]", name, i), depth-1)
		}
		anyT := types.NewInterfaceType(nil, nil)
		var sl Value = Slice{}
		if n > 0 {
			sl = Slice{C: m.newCell(&Array{E: es}), Len: n, Cap: n}
		} else {
			sl = Slice{C: m.newCell(&Array{}), Len: 0, Cap: 0}
		}
		return Iface{T: types.NewSlice(anyT), V: sl}
	case "map":
		n := m.choose(2, true, func(int) *Term { return TrueT })
		m.recordChoice(name+".len", int64(n))
		m.cellID++
		mo := &MapObj{ID: m.cellID}
		for i := 0; i < n; i++ {
			mo.Keys = append(mo.Keys, m.nondetVar(fmt.Sprintf("%s.key%d", name, i), SString))
			mo.Vals = append(mo.Vals, m.vfAny(fmt.Sprintf("%s.val%d", name, i), depth-1))
		}
		anyT := types.NewInterfaceType(nil, nil)
		return Iface{T: types.NewMap(types.Typ[types.String], anyT), V: MapRef{M: mo}}
	case "time":
		tt := m.pkgType("time", "Time")
		return Iface{T: tt, V: zero(tt)}
	}
	panic("unreachable")
}

// concreteAPI: harness vocabulary when replaying a witness model concretely.
func (m *Machine) concreteAPI(fn *ssa.Function, a []Value) (Value, bool) {
	lookup := func(v *Term) (ModelVal, bool) {
		mv, ok := m.Concrete[v.S]
		return mv, ok
	}
	switch fn.Name() {
	case "vfString":
		v := m.nondetVar(m.constName(a[0]), SString)
		mv, _ := lookup(v)
		return mv.S, true
	case "vfInt":
		v := m.nondetVar(m.constName(a[0]), SInt)
		mv, _ := lookup(v)
		return mv.I, true
	case "vfBool":
		v := m.nondetVar(m.constName(a[0]), SBool)
		mv, _ := lookup(v)
		return mv.B, true
	case "vfFloatText":
		v := m.nondetVar(m.constName(a[0]), SString)
		mv, _ := lookup(v)
		return mv.S, true
	case "vfCharString", "vfASCIIString":
		name := m.constName(a[0])
		n := int(a[1].(int64))
		out := make([]rune, n)
		for i := range out {
			v := m.nondetVar(fmt.Sprintf("%s[%d]", name, i), SInt)
			mv, _ := lookup(v)
			out[i] = rune(mv.I)
		}
		return string(out), true
	case "vfChoice":
		return m.concreteChoice(m.constName(a[0])), true
	case "vfAny":
		return m.concreteAny(m.constName(a[0]), int(a[1].(int64))), true
	case "vfAssume":
		b, ok := a[0].(bool)
		if !ok {
			unsupported("concrete self-test: assumption stayed symbolic: %s", truncate(toTerm(a[0]).SMT(), 200))
		}
		if !b {
			panic(pathAbort{"assume false"})
		}
		return nil, true
	case "vfAssert":
		b, ok := a[0].(bool)
		if !ok {
			unsupported("concrete self-test: assertion %q stayed symbolic: %s", m.constName(a[1]), truncate(toTerm(a[0]).SMT(), 200))
		}
		m.Trace = append(m.Trace, fmt.Sprintf("assert:%s=%v", m.constName(a[1]), b))
		return nil, true
	case "vfAssertKnown":
		b, ok := a[0].(bool)
		if !ok {
			unsupported("concrete self-test: assertion %q stayed symbolic", m.constName(a[1]))
		}
		m.Trace = append(m.Trace, fmt.Sprintf("assert:%s=%v", m.constName(a[1]), b))
		return nil, true
	case "vfReach":
		m.Trace = append(m.Trace, "reach:"+m.constName(a[0]))
		return nil, true
	case "vfObserve":
		s, ok := a[1].(string)
		if !ok {
			unsupported("concrete self-test: observation %q stayed symbolic", m.constName(a[0]))
		}
		m.Trace = append(m.Trace, "obs:"+m.constName(a[0])+"="+s)
		return nil, true
	case "vfIsSymbolicRun":
		return false, true
	case "vfEmitted":
		return m.vfEmitted(fn, a[0]), true
	case "vfTypeErrors":
		return m.vfTypeErrors(a[0], a[1]), true
	case "vfPruneImports":
		return m.vfPruneImports(a[0]), true
	}
	return nil, false
}

func (m *Machine) concreteChoice(name string) int64 {
	base := "choice:" + name
	k := m.nondetNames[base]
	m.nondetNames[base] = k + 1
	if k > 0 {
		base = fmt.Sprintf("%s__%d", base, k)
	}
	return m.Concrete[base].I
}

func (m *Machine) concreteAny(name string, depth int) Value {
	kinds := AnyKinds
	switch kinds[m.concreteChoice(name+".kind")] {
	case "nil":
		return Iface{}
	case "string":
		return Iface{T: types.Typ[types.String], V: m.Concrete[m.nondetVar(name+".str", SString).S].S}
	case "int":
		return Iface{T: types.Typ[types.Int], V: m.Concrete[m.nondetVar(name+".int", SInt).S].I}
	case "bool":
		return Iface{T: types.Typ[types.Bool], V: m.Concrete[m.nondetVar(name+".bool", SBool).S].B}
	case "uint64":
		return Iface{T: types.Typ[types.Uint64], V: m.Concrete[m.nondetVar(name+".uint", SInt).S].I}
	case "float64":
		cls := []string{"finite", "+Inf", "-Inf", "NaN"}
		c := m.concreteChoice(name + ".fclass")
		sf := &SymFloat{Class: cls[c]}
		if c == 0 {
			sf.Text = StrT(m.Concrete[m.nondetVar(name+".ftext", SString).S].S)
		} else {
			sf.Text = StrT(cls[c])
		}
		return Iface{T: types.Typ[types.Float64], V: sf}
	case "slice":
		n := int(m.concreteChoice(name + ".len"))
		es := make([]Value, n)
		for i := range es {
			es[i] = m.concreteAny(fmt.Sprintf("%s[%d]", name, i), depth-1)
		}
		anyT := types.NewInterfaceType(nil, nil)
		return Iface{T: types.NewSlice(anyT), V: Slice{C: m.newCell(&Array{E: es}), Len: n, Cap: n}}
	case "map":
		n := int(m.concreteChoice(name + ".len"))
		m.cellID++
		mo := &MapObj{ID: m.cellID}
		for i := 0; i < n; i++ {
			mo.Keys = append(mo.Keys, m.Concrete[m.nondetVar(fmt.Sprintf("%s.key%d", name, i), SString).S].S)
			mo.Vals = append(mo.Vals, m.concreteAny(fmt.Sprintf("%s.val%d", name, i), depth-1))
		}
		anyT := types.NewInterfaceType(nil, nil)
		return Iface{T: types.NewMap(types.Typ[types.String], anyT), V: MapRef{M: mo}}
	}
	tt := m.pkgType("time", "Time")
	return Iface{T: tt, V: zero(tt)}
}

// runtimeHas: does the pinned runtime module's container package give type
// `typ` a method (or, for "pkg", export a function / type) called name? The
// name may be symbolic only if it is concrete on this path.
func (m *Machine) runtimeHas(typ string, name Value) Value {
	n, ok := forceLazy(name).(string)
	p := m.Prog.ImportedPackage(helpers + "container")
	if !ok && p != nil && typ != "pkg" {
		// symbolic name: a disjunction over the method set
		var alts []*Term
		if o := p.Pkg.Scope().Lookup(typ); o != nil {
			seen := map[string]bool{}
			for _, t := range []types.Type{o.Type(), types.NewPointer(o.Type())} {
				ms := types.NewMethodSet(t)
				for i := 0; i < ms.Len(); i++ {
					if f := ms.At(i).Obj(); f.Exported() && !seen[f.Name()] {
						seen[f.Name()] = true
						alts = append(alts, Eq(toTerm(forceLazy(name)), StrT(f.Name())))
					}
				}
			}
		}
		return fromTerm(Or(alts...))
	}
	if !ok {
		unsupported("vfRuntimeHas: the API name must be concrete on this path, got %s", describe(name))
	}
	if p == nil {
		unsupported("runtime container package not loaded")
	}
	if typ == "pkg" {
		o := p.Pkg.Scope().Lookup(n)
		return o != nil && o.Exported()
	}
	o := p.Pkg.Scope().Lookup(typ)
	if o == nil {
		return false
	}
	for _, t := range []types.Type{o.Type(), types.NewPointer(o.Type())} {
		ms := types.NewMethodSet(t)
		for i := 0; i < ms.Len(); i++ {
			if ms.At(i).Obj().Name() == n && ms.At(i).Obj().Exported() {
				return true
			}
		}
	}
	return false
}
