package engine

import (
	"fmt"
	"go/types"

	"golang.org/x/tools/go/ssa"
)

// harnessAPI intercepts the vf* vocabulary (DESIGN §4).
func (m *Machine) harnessAPI(fn *ssa.Function, a []Value) (Value, bool) {
	switch fn.Name() {
	case "vfString":
		return m.nondetVar(m.constName(a[0]), SString), true
	case "vfInt":
		return m.nondetVar(m.constName(a[0]), SInt), true
	case "vfBool":
		return m.nondetVar(m.constName(a[0]), SBool), true
	case "vfAssume":
		t := toTerm(a[0])
		if t.IsConst() {
			if !t.B {
				panic(pathAbort{"assume false"})
			}
			return nil, true
		}
		switch m.feasible(t) {
		case Unsat:
			panic(pathAbort{"assumption infeasible"})
		case Unknown:
			m.uncertain = true
		}
		m.assume(t)
		return nil, true
	case "vfAssert":
		m.assert(a[0], m.constName(a[1]))
		return nil, true
	case "vfAssertKnown":
		// vfAssertKnown(c, msg, id, pred): a failure with pred is the listed
		// finding <id>; a failure without pred is a new violation (DESIGN 3.17).
		c, pred := toTerm(a[0]), toTerm(a[3])
		msg, id := m.constName(a[1]), m.constName(a[2])
		m.assert(fromTerm(Or(c, pred)), msg)
		m.assert(fromTerm(Or(c, Not(pred))), msg+" [known:"+id+"]")
		return nil, true
	case "vfOr":
		return fromTerm(Or(toTerm(a[0]), toTerm(a[1]))), true
	case "vfAnd":
		return fromTerm(And(toTerm(a[0]), toTerm(a[1]))), true
	case "vfReach":
		m.reached = append(m.reached, m.constName(a[0]))
		return nil, true
	case "vfRuneLen":
		return fromTerm(Len(toTerm(a[0]))), true
	case "vfChoice":
		n := int(a[1].(int64))
		alt := m.choose(n, true, func(int) *Term { return TrueT })
		m.recordChoice(m.constName(a[0]), int64(alt))
		return int64(alt), true
	case "vfSplitLen":
		max := int(a[1].(int64))
		if t, ok := a[0].(*Term); ok {
			m.concretizeInt(fromTerm(Len(t)), 0, int64(max), "vfSplitLen")
		}
		return nil, true
	case "vfInRe":
		re, err := CompileRegex(m.constName(a[1]))
		if err != nil {
			unsupported("vfInRe: %v", err)
		}
		return fromTerm(InRe(toTerm(a[0]), re)), true
	case "vfBound":
		if m.Cfg.Tier == "thorough" {
			return a[2], true
		}
		return a[1], true
	case "vfTag":
		m.pathTags = append(m.pathTags, m.constName(a[0]))
		return nil, true
	case "vfCharString", "vfASCIIString":
		// a string of exactly n symbolic code points (n concrete on this path)
		name := m.constName(a[0])
		n := int(m.concretizeInt(a[1], 0, 64, "vfCharString length"))
		parts := make([]*Term, n)
		for i := 0; i < n; i++ {
			c := m.nondetVar(fmt.Sprintf("%s[%d]", name, i), SInt)
			hi := int64(maxSMTChar)
			if fn.Name() == "vfASCIIString" {
				hi = 127
			}
			c.Hi = hi
			m.assume(And(Ge(c, IntT(0)), Le(c, IntT(hi))))
			if hi > 0xD7FF {
				m.assume(Or(Lt(c, IntT(0xD800)), Gt(c, IntT(0xDFFF))))
			}
			parts[i] = FromCode(c)
		}
		return fromTerm(Concat(parts...)), true
	case "vfRegister":
		return nil, true
	case "vfAny":
		return m.vfAny(m.constName(a[0]), int(a[1].(int64))), true
	case "vfIsSymbolicRun":
		return true, true
	case "vfQuote":
		return fromTerm(App("Q", SString, toTerm(a[0]))), true
	case "vfFloatText":
		// text that strconv.FormatFloat(x,'f',-1,64) yields for a finite float
		v := m.nondetVar(m.constName(a[0]), SString)
		m.assume(&Term{Op: "in_re", Args: []*Term{v}, Sort: SBool, Re: floatTextRe})
		return v, true
	}
	return nil, false
}

var floatTextRe = &Regex{Pattern: "floattext", SMT: `(re.++ (re.opt (str.to_re "-")) (re.+ (re.range "0" "9")) (re.opt (re.++ (str.to_re ".") (re.+ (re.range "0" "9")))))`}

func (m *Machine) constName(v Value) string {
	s, ok := v.(string)
	if !ok {
		unsupported("vf*: name/message argument must be a constant string, got %s", describe(v))
	}
	return s
}

func (m *Machine) recordChoice(name string, alt int64) {
	// choices are reported in models under "choice:<name>" (k-th repeat suffixed)
	base := "choice:" + name
	k := m.nondetNames[base]
	m.nondetNames[base] = k + 1
	if k > 0 {
		base = fmt.Sprintf("%s__%d", base, k)
	}
	if m.env["choices"] == nil {
		m.env["choices"] = map[string]int64{}
	}
	m.env["choices"].(map[string]int64)[base] = alt
	m.pathTags = append(m.pathTags, fmt.Sprintf("%s=%d", base, alt))
}

// AnyKinds are the dynamic kinds yaml.v3 produces (DESIGN 3.7).
var AnyKinds = []string{"nil", "string", "int", "bool", "float64", "uint64", "slice", "map", "time"}

func (m *Machine) vfAny(name string, depth int) Value {
	kinds := AnyKinds
	if depth <= 0 {
		kinds = AnyKinds[:6]
	}
	alt := m.choose(len(kinds), true, func(int) *Term { return TrueT })
	m.recordChoice(name+".kind", int64(alt))
	switch kinds[alt] {
	case "nil":
		return Iface{}
	case "string":
		return Iface{T: types.Typ[types.String], V: m.nondetVar(name+".str", SString)}
	case "int":
		v := m.nondetVar(name+".int", SInt)
		m.assume(And(Ge(v, IntT(-1<<62)), Le(v, IntT(1<<62))))
		return Iface{T: types.Typ[types.Int], V: v}
	case "bool":
		return Iface{T: types.Typ[types.Bool], V: m.nondetVar(name+".bool", SBool)}
	case "uint64":
		v := m.nondetVar(name+".uint", SInt)
		m.assume(And(Ge(v, IntT(0)), Le(v, IntT(1<<62))))
		return Iface{T: types.Typ[types.Uint64], V: v}
	case "float64":
		cls := []string{"finite", "+Inf", "-Inf", "NaN"}
		c := m.choose(len(cls), true, func(int) *Term { return TrueT })
		m.recordChoice(name+".fclass", int64(c))
		sf := &SymFloat{Class: cls[c]}
		if c == 0 {
			t := m.nondetVar(name+".ftext", SString)
			m.assume(&Term{Op: "in_re", Args: []*Term{t}, Sort: SBool, Re: floatTextRe})
			sf.Text = t
		} else {
			sf.Text = StrT(cls[c])
		}
		return Iface{T: types.Typ[types.Float64], V: sf}
	case "slice":
		n := m.choose(3, true, func(int) *Term { return TrueT })
		m.recordChoice(name+".len", int64(n))
		es := make([]Value, n)
		for i := range es {
			es[i] = m.vfAny(fmt.Sprintf("%s[%d]", name, i), depth-1)
		}
		anyT := types.NewInterfaceType(nil, nil)
		var sl Value = Slice{}
		if n > 0 {
			sl = Slice{C: m.newCell(&Array{E: es}), Len: n, Cap: n}
		} else {
			sl = Slice{C: m.newCell(&Array{}), Len: 0, Cap: 0}
		}
		return Iface{T: types.NewSlice(anyT), V: sl}
	case "map":
		n := m.choose(2, true, func(int) *Term { return TrueT })
		m.recordChoice(name+".len", int64(n))
		m.cellID++
		mo := &MapObj{ID: m.cellID}
		for i := 0; i < n; i++ {
			mo.Keys = append(mo.Keys, m.nondetVar(fmt.Sprintf("%s.key%d", name, i), SString))
			mo.Vals = append(mo.Vals, m.vfAny(fmt.Sprintf("%s.val%d", name, i), depth-1))
		}
		anyT := types.NewInterfaceType(nil, nil)
		return Iface{T: types.NewMap(types.Typ[types.String], anyT), V: MapRef{M: mo}}
	case "time":
		tt := m.pkgType("time", "Time")
		return Iface{T: tt, V: zero(tt)}
	}
	panic("unreachable")
}
