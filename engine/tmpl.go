package engine

import (
	"fmt"
	"go/types"
	"os"
	"path/filepath"
	"sort"
	"strings"
	"sync"
	"text/template/parse"

	"golang.org/x/tools/go/ssa"
)

// Symbolic interpreter for the repository's text/template files (DESIGN
// 3.12). The templates are re-parsed from /repo on every run; data access,
// method calls and the functions of the FuncMap are executed on engine values
// (the functions are the real closures built by createDefaultFunctions).

type tval struct {
	v Value
	t types.Type // static type; nil = untyped nil
}

type tmplSet struct {
	trees map[string]*parse.Tree
}

var (
	tmplMu    sync.Mutex
	tmplCache = map[string]*tmplSet{}
)

// TemplateDir is where the .tpl files live (set by the driver).
var TemplateDir = "/repo/internal/pkg/template/templates"

func loadTemplates(patterns []string) (*tmplSet, error) {
	key := strings.Join(patterns, "|")
	tmplMu.Lock()
	defer tmplMu.Unlock()
	if s, ok := tmplCache[key]; ok {
		return s, nil
	}
	set := &tmplSet{trees: map[string]*parse.Tree{}}
	var files []string
	for _, p := range patterns {
		ms, err := filepath.Glob(filepath.Join(TemplateDir, p))
		if err != nil {
			return nil, err
		}
		files = append(files, ms...)
	}
	sort.Strings(files)
	for _, f := range files {
		b, err := os.ReadFile(f)
		if err != nil {
			return nil, err
		}
		t := parse.New(filepath.Base(f))
		t.Mode = parse.SkipFuncCheck
		if _, err := t.Parse(string(b), "", "", set.trees); err != nil {
			return nil, fmt.Errorf("%s: %w", f, err)
		}
	}
	tmplCache[key] = set
	return set, nil
}

type tmplExec struct {
	m     *Machine
	set   *tmplSet
	funcs MapRef
	out   []*Term
	vars  []tvar
	depth int
}

type tvar struct {
	name string
	val  tval
}

type tmplError struct{ err Value }

func (x *tmplExec) emit(t *Term) { x.out = append(x.out, t) }

func (x *tmplExec) fail(format string, a ...interface{}) {
	unsupported("template interpreter: "+format, a...)
}

// execTemplate renders template `name` of the set given by patterns.
func (m *Machine) execTemplate(name string, patterns []string, data Value, funcs MapRef) (res Value, err Value) {
	set, e := loadTemplates(patterns)
	if e != nil {
		unsupported("template interpreter: %v", e)
	}
	tree := set.trees[name]
	if tree == nil {
		unsupported("template interpreter: no template %q", name)
	}
	x := &tmplExec{m: m, set: set, funcs: funcs}
	di := data.(Iface)
	dot := tval{v: di.V, t: di.T}
	x.vars = []tvar{{"$", dot}}
	defer func() {
		if r := recover(); r != nil {
			if te, ok := r.(tmplError); ok {
				res, err = "", te.err
				return
			}
			panic(r)
		}
	}()
	x.walk(dot, tree.Root)
	return fromTerm(Concat(x.out...)), Iface{}
}

func (x *tmplExec) walk(dot tval, n parse.Node) {
	x.m.steps++
	switch n := n.(type) {
	case *parse.ListNode:
		if n == nil {
			return
		}
		for _, c := range n.Nodes {
			x.walk(dot, c)
		}
	case *parse.TextNode:
		x.emit(StrT(string(n.Text)))
	case *parse.CommentNode:
	case *parse.ActionNode:
		v := x.evalPipeline(dot, n.Pipe)
		if len(n.Pipe.Decl) == 0 {
			x.emit(x.printValue(v))
		}
	case *parse.IfNode:
		mark := len(x.vars)
		v := x.evalPipeline(dot, n.Pipe)
		if x.truth(v) {
			x.walk(dot, n.List)
		} else if n.ElseList != nil {
			x.walk(dot, n.ElseList)
		}
		x.vars = x.vars[:mark]
	case *parse.RangeNode:
		mark := len(x.vars)
		v := x.evalPipelineNoDecl(dot, n.Pipe)
		elems, et := x.elements(v)
		if len(elems) == 0 {
			if n.ElseList != nil {
				x.walk(dot, n.ElseList)
			}
			return
		}
		for i, e := range elems {
			ev := tval{v: e, t: et}
			x.vars = x.vars[:mark]
			switch len(n.Pipe.Decl) {
			case 1:
				x.vars = append(x.vars, tvar{n.Pipe.Decl[0].Ident[0], ev})
			case 2:
				x.vars = append(x.vars, tvar{n.Pipe.Decl[0].Ident[0], tval{v: int64(i), t: types.Typ[types.Int]}})
				x.vars = append(x.vars, tvar{n.Pipe.Decl[1].Ident[0], ev})
			}
			x.walk(ev, n.List)
		}
		x.vars = x.vars[:mark]
	case *parse.TemplateNode:
		tree := x.set.trees[n.Name]
		if tree == nil {
			x.fail("template %q not defined", n.Name)
		}
		ndot := tval{}
		if n.Pipe != nil {
			ndot = x.evalPipeline(dot, n.Pipe)
		}
		x.depth++
		if x.depth > 50 {
			x.fail("template recursion too deep")
		}
		saved := x.vars
		x.vars = []tvar{{"$", ndot}}
		x.walk(ndot, tree.Root)
		x.vars = saved
		x.depth--
	case *parse.WithNode:
		mark := len(x.vars)
		v := x.evalPipeline(dot, n.Pipe)
		if x.truth(v) {
			x.walk(v, n.List)
		} else if n.ElseList != nil {
			x.walk(dot, n.ElseList)
		}
		x.vars = x.vars[:mark]
	default:
		x.fail("node %T", n)
	}
}

func (x *tmplExec) evalPipelineNoDecl(dot tval, p *parse.PipeNode) tval {
	var v tval
	first := true
	for _, c := range p.Cmds {
		v = x.evalCommand(dot, c, v, !first)
		first = false
	}
	return v
}

func (x *tmplExec) evalPipeline(dot tval, p *parse.PipeNode) tval {
	v := x.evalPipelineNoDecl(dot, p)
	for _, d := range p.Decl {
		if p.IsAssign {
			for i := len(x.vars) - 1; i >= 0; i-- {
				if x.vars[i].name == d.Ident[0] {
					x.vars[i].val = v
					break
				}
			}
		} else {
			x.vars = append(x.vars, tvar{d.Ident[0], v})
		}
	}
	return v
}

func (x *tmplExec) evalCommand(dot tval, c *parse.CommandNode, final tval, hasFinal bool) tval {
	first := c.Args[0]
	switch n := first.(type) {
	case *parse.IdentifierNode:
		var args []tval
		for _, a := range c.Args[1:] {
			args = append(args, x.evalArg(dot, a))
		}
		if hasFinal {
			args = append(args, final)
		}
		return x.callFunc(n.Ident, args)
	case *parse.FieldNode, *parse.VariableNode, *parse.ChainNode:
		// a method with arguments is not used by these templates
		if len(c.Args) > 1 || hasFinal {
			x.fail("method call with arguments: %s", c)
		}
		return x.evalArg(dot, first)
	case *parse.PipeNode:
		return x.evalPipeline(dot, n)
	}
	if len(c.Args) > 1 || hasFinal {
		x.fail("cannot give arguments to non-function %s", first)
	}
	return x.evalArg(dot, first)
}

func (x *tmplExec) evalArg(dot tval, n parse.Node) tval {
	switch n := n.(type) {
	case *parse.DotNode:
		return dot
	case *parse.NilNode:
		return tval{}
	case *parse.StringNode:
		return tval{v: n.Text, t: types.Typ[types.String]}
	case *parse.BoolNode:
		return tval{v: n.True, t: types.Typ[types.Bool]}
	case *parse.NumberNode:
		if n.IsInt {
			return tval{v: n.Int64, t: types.Typ[types.Int]}
		}
		x.fail("non-integer number %s", n.Text)
	case *parse.FieldNode:
		return x.fieldChain(dot, n.Ident)
	case *parse.VariableNode:
		for i := len(x.vars) - 1; i >= 0; i-- {
			if x.vars[i].name == n.Ident[0] {
				return x.fieldChain(x.vars[i].val, n.Ident[1:])
			}
		}
		x.fail("undefined variable %s", n.Ident[0])
	case *parse.ChainNode:
		return x.fieldChain(x.evalArg(dot, n.Node), n.Field)
	case *parse.PipeNode:
		return x.evalPipeline(dot, n)
	case *parse.IdentifierNode:
		return x.callFunc(n.Ident, nil)
	}
	x.fail("argument node %T", n)
	return tval{}
}

// fieldChain resolves .A.B.C: struct fields, niladic methods, map keys.
func (x *tmplExec) fieldChain(v tval, names []string) tval {
	for _, name := range names {
		v = x.field(v, name)
	}
	return v
}

func (x *tmplExec) field(v tval, name string) tval {
	if v.t == nil {
		x.fail("field %s of nil", name)
	}
	// unwrap interfaces
	if types.IsInterface(v.t) {
		i := v.v.(Iface)
		if i.T == nil {
			x.fail("nil pointer evaluating field %s", name)
		}
		// a method of the interface?
		if ms := x.m.Prog.MethodSets.MethodSet(i.T); ms != nil {
			for k := 0; k < ms.Len(); k++ {
				if ms.At(k).Obj().Name() == name {
					return x.callMethodSel(tval{v: i.V, t: i.T}, ms.At(k))
				}
			}
		}
		v = tval{v: i.V, t: i.T}
	}
	// methods first (value or pointer receiver)
	ms := x.m.Prog.MethodSets.MethodSet(v.t)
	for k := 0; k < ms.Len(); k++ {
		if ms.At(k).Obj().Name() == name {
			return x.callMethodSel(v, ms.At(k))
		}
	}
	t := v.t
	val := v.v
	if p, ok := t.Underlying().(*types.Pointer); ok {
		val = val.(Pointer).load()
		t = p.Elem()
	}
	switch u := t.Underlying().(type) {
	case *types.Struct:
		for k := 0; k < u.NumFields(); k++ {
			if u.Field(k).Name() == name {
				return tval{v: val.(*Struct).F[k], t: u.Field(k).Type()}
			}
		}
	case *types.Map:
		mr := val.(MapRef)
		idx := x.m.mapFind(mr, name)
		if idx < 0 {
			return tval{v: zero(u.Elem()), t: u.Elem()}
		}
		return tval{v: mr.M.Vals[idx], t: u.Elem()}
	}
	x.fail("cannot evaluate field %s in type %s", name, v.t)
	return tval{}
}

func (x *tmplExec) callMethodSel(recv tval, sel *types.Selection) tval {
	fn := x.m.Prog.MethodValue(sel)
	if fn == nil {
		x.fail("no SSA for method %s", sel.Obj().Name())
	}
	if fn.Signature.Params().Len() != 0 {
		x.fail("method %s needs arguments", sel.Obj().Name())
	}
	res := x.m.callClosure(fn, nil, []Value{recv.v})
	rs := fn.Signature.Results()
	switch rs.Len() {
	case 1:
		return tval{v: res, t: rs.At(0).Type()}
	case 2:
		t := res.(Tuple)
		if !isNilErr(t[1]) {
			panic(tmplError{t[1]})
		}
		return tval{v: t[0], t: rs.At(0).Type()}
	}
	x.fail("method %s returns %d values", sel.Obj().Name(), rs.Len())
	return tval{}
}

func (x *tmplExec) callFunc(name string, args []tval) tval {
	switch name {
	case "eq", "ne":
		if len(args) != 2 {
			x.fail("%s with %d arguments", name, len(args))
		}
		r := x.equalVals(args[0], args[1])
		if name == "ne" {
			r = x.m.not(r)
		}
		return tval{v: r, t: types.Typ[types.Bool]}
	case "not":
		return tval{v: !x.truth(args[0]), t: types.Typ[types.Bool]}
	case "and":
		for _, a := range args {
			if !x.truth(a) {
				return a
			}
		}
		return args[len(args)-1]
	case "or":
		for _, a := range args {
			if x.truth(a) {
				return a
			}
		}
		return args[len(args)-1]
	case "len":
		es, _ := x.elements(args[0])
		return tval{v: int64(len(es)), t: types.Typ[types.Int]}
	case "index":
		cur := args[0]
		for _, k := range args[1:] {
			cur = x.indirect(cur)
			if cur.t == nil {
				x.fail("index of nil")
			}
			switch u := cur.t.Underlying().(type) {
			case *types.Slice:
				es := sliceElems(cur.v.(Slice))
				i, ok := k.v.(int64)
				if !ok || i < 0 || int(i) >= len(es) {
					panic(tmplError{x.m.newError("template: index out of range")})
				}
				cur = tval{v: es[i], t: u.Elem()}
			case *types.Map:
				mr := cur.v.(MapRef)
				idx := x.m.mapFind(mr, k.v)
				if idx < 0 {
					cur = tval{v: zero(u.Elem()), t: u.Elem()}
				} else {
					cur = tval{v: mr.M.Vals[idx], t: u.Elem()}
				}
			default:
				x.fail("index of %s", cur.t)
			}
		}
		return cur
	case "print", "println":
		var parts []*Term
		for i, a := range args {
			if i > 0 && name == "println" {
				parts = append(parts, StrT(" "))
			}
			parts = append(parts, x.printValue(a))
		}
		if name == "println" {
			parts = append(parts, StrT("\n"))
		}
		return tval{v: fromTerm(Concat(parts...)), t: types.Typ[types.String]}
	}
	idx := x.m.mapFind(x.funcs, name)
	if idx < 0 {
		x.fail("function %q not defined", name)
	}
	fn := x.funcs.M.Vals[idx]
	var in []Value
	for _, a := range args {
		if a.t == nil {
			in = append(in, Iface{})
		} else {
			in = append(in, toAny(a.v, a.t))
		}
	}
	out := x.m.callAny(fn, in)
	sig := fn.(Iface).T.Underlying().(*types.Signature)
	switch len(out) {
	case 1:
		return x.fromAnyVal(out[0], sig.Results().At(0).Type())
	case 2:
		if !isNilErr(out[1]) {
			panic(tmplError{out[1]})
		}
		return x.fromAnyVal(out[0], sig.Results().At(0).Type())
	}
	x.fail("function %q returns %d values", name, len(out))
	return tval{}
}

func (x *tmplExec) fromAnyVal(a Value, t types.Type) tval {
	if types.IsInterface(t) {
		return tval{v: a, t: t}
	}
	return tval{v: a.(Iface).V, t: t}
}

// indirect unwraps interfaces down to a concrete value.
func (x *tmplExec) indirect(v tval) tval {
	for v.t != nil && types.IsInterface(v.t) {
		i, ok := v.v.(Iface)
		if !ok || i.T == nil {
			return tval{}
		}
		v = tval{v: i.V, t: i.T}
	}
	return v
}

func (x *tmplExec) equalVals(a, b tval) Value {
	a, b = x.indirect(a), x.indirect(b)
	if a.t == nil || b.t == nil {
		return a.t == nil && b.t == nil
	}
	ka, kb := basicClass(a.t), basicClass(b.t)
	if ka == "" || kb == "" || ka != kb {
		x.fail("eq: incompatible types for comparison: %s and %s", a.t, b.t)
	}
	return fromTerm(Eq(toTerm(forceLazy(a.v)), toTerm(forceLazy(b.v))))
}

func basicClass(t types.Type) string {
	b, ok := t.Underlying().(*types.Basic)
	if !ok {
		return ""
	}
	switch {
	case b.Info()&types.IsBoolean != 0:
		return "bool"
	case b.Info()&types.IsInteger != 0:
		return "int"
	case b.Info()&types.IsString != 0:
		return "string"
	}
	return ""
}

func (x *tmplExec) truth(v tval) bool {
	v = x.indirect(v)
	if v.t == nil {
		return false
	}
	switch u := v.t.Underlying().(type) {
	case *types.Basic:
		switch {
		case u.Info()&types.IsBoolean != 0:
			return x.m.branch(v.v)
		case u.Info()&types.IsString != 0:
			return x.m.branch(x.m.not(fromTerm(Eq(toTerm(forceLazy(v.v)), StrT("")))))
		case u.Info()&types.IsInteger != 0:
			return x.m.branch(x.m.not(fromTerm(Eq(toTerm(v.v), IntT(0)))))
		}
	case *types.Slice:
		s := v.v.(Slice)
		return s.C != nil && s.Len > 0
	case *types.Map:
		mr := v.v.(MapRef)
		return mr.M != nil && len(mr.M.Keys) > 0
	case *types.Pointer:
		return !isNilPointer(v.v)
	case *types.Struct:
		return true
	}
	x.fail("truth of %s", v.t)
	return false
}

func (x *tmplExec) elements(v tval) ([]Value, types.Type) {
	v = x.indirect(v)
	if v.t == nil {
		return nil, nil
	}
	switch u := v.t.Underlying().(type) {
	case *types.Slice:
		return sliceElems(v.v.(Slice)), u.Elem()
	}
	x.fail("range over %s", v.t)
	return nil, nil
}

func (x *tmplExec) printValue(v tval) *Term {
	v = x.indirect(v)
	if v.t == nil {
		return StrT("<no value>")
	}
	if b, ok := v.t.Underlying().(*types.Basic); ok {
		switch {
		case b.Info()&types.IsString != 0:
			return toTerm(forceLazy(v.v))
		case b.Info()&types.IsInteger != 0:
			return FromInt(toTerm(v.v))
		case b.Info()&types.IsBoolean != 0:
			return Ite(toTerm(v.v), StrT("true"), StrT("false"))
		}
	}
	x.fail("print of %s", v.t)
	return nil
}

func init() {
	intrinsics["(github.com/gontainer/gontainer/internal/pkg/template.tpl).exec"] = func(m *Machine, fn *ssa.Function, a []Value) Value {
		// type tpl struct { fsys fs.FS; name string; patterns []string; data any; funcs template.FuncMap }
		t := a[0].(*Struct)
		st := fn.Signature.Recv().Type().Underlying().(*types.Struct)
		get := func(name string) Value {
			for i := 0; i < st.NumFields(); i++ {
				if st.Field(i).Name() == name {
					return t.F[i]
				}
			}
			unsupported("template interpreter: tpl has no field %s", name)
			return nil
		}
		name, ok := get("name").(string)
		if !ok {
			unsupported("template interpreter: symbolic template name")
		}
		var patterns []string
		for _, p := range sliceElems(get("patterns").(Slice)) {
			patterns = append(patterns, p.(string))
		}
		res, err := m.execTemplate(name, patterns, get("data"), get("funcs").(MapRef))
		return Tuple{res, err}
	}
}
