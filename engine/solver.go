package engine

import (
	"bufio"
	"fmt"
	"io"
	"os"
	"os/exec"
	"strconv"
	"strings"
	"sync"
	"time"
)

// Result of a satisfiability query.
type Result int

const (
	Unsat Result = iota
	Sat
	Unknown
)

func (r Result) String() string {
	return [...]string{"unsat", "sat", "unknown"}[r]
}

// ModelVal is a value from a solver model.
type ModelVal struct {
	Sort Sort
	S    string
	I    int64
	B    bool
}

type backend struct {
	name string
	argv []string
	// how to set a per-query timeout (ms); "" if set on command line only
	timeoutOpt string
}

var backends = []backend{
	{name: "z3", argv: []string{"z3", "-in"}, timeoutOpt: "(set-option :timeout %d)"},
	{name: "z3-new", argv: []string{"z3-new", "-in"}, timeoutOpt: "(set-option :timeout %d)"},
	{name: "cvc5", argv: []string{"cvc5", "--incremental", "--strings-exp", "--lang=smt2", "--produce-models"}, timeoutOpt: "(set-option :tlimit-per %d)"},
}

// proc is one live solver process.
type proc struct {
	be       backend
	cmd      *exec.Cmd
	in       io.WriteCloser
	out      *bufio.Reader
	declared map[string]bool
	lines    chan string
	dead     bool
	stack    []string // keys of the path-condition conjuncts currently asserted (one push level each)
}

func startProc(be backend) (*proc, error) {
	cmd := exec.Command(be.argv[0], be.argv[1:]...)
	in, err := cmd.StdinPipe()
	if err != nil {
		return nil, err
	}
	outp, err := cmd.StdoutPipe()
	if err != nil {
		return nil, err
	}
	cmd.Stderr = cmd.Stdout
	if err := cmd.Start(); err != nil {
		return nil, err
	}
	p := &proc{be: be, cmd: cmd, in: in, out: bufio.NewReaderSize(outp, 1<<20), declared: map[string]bool{}, lines: make(chan string, 1024)}
	go func() {
		for {
			l, err := p.out.ReadString('\n')
			if l != "" {
				p.lines <- strings.TrimRight(l, "\r\n")
			}
			if err != nil {
				close(p.lines)
				return
			}
		}
	}()
	p.send("(set-option :produce-models true)")
	p.send("(set-option :global-declarations true)")
	p.send("(set-logic ALL)")
	return p, nil
}

func (p *proc) send(s string) {
	if p.dead {
		return
	}
	if _, err := io.WriteString(p.in, s+"\n"); err != nil {
		p.dead = true
	}
}

func (p *proc) kill() {
	p.dead = true
	_ = p.in.Close()
	if p.cmd.Process != nil {
		_ = p.cmd.Process.Kill()
	}
	go func() { _ = p.cmd.Wait() }()
}

// readLine waits for one output line up to the deadline.
func (p *proc) readLine(deadline time.Time) (string, bool) {
	d := time.Until(deadline)
	if d <= 0 {
		d = time.Millisecond
	}
	t := time.NewTimer(d)
	defer t.Stop()
	select {
	case l, ok := <-p.lines:
		if !ok {
			p.dead = true
			return "", false
		}
		return l, true
	case <-t.C:
		return "", false
	}
}

// Stats are accumulated per Solver.
type Stats struct {
	Queries  int
	Sat      int
	Unsat    int
	Unknown  int
	CacheHit int
	TimeS    map[string]float64
	ByBack   map[string]int
}

// Solver is a portfolio of persistent solver processes. Not safe for
// concurrent use: one per worker.
type Solver struct {
	procs     []*proc
	TimeoutMs int
	Stats     Stats
	cache     map[string]Result
	Log       io.Writer
	CrossCheck bool
	Disagree  []string
	StageMs   int
	wins      []int
	mu        sync.Mutex
}

// order: the backend with the most wins so far goes first.
func (s *Solver) order() []int {
	idx := make([]int, len(backends))
	for i := range idx {
		idx[i] = i
	}
	for i := 1; i < len(idx); i++ {
		for j := i; j > 0 && s.wins[idx[j]] > s.wins[idx[j-1]]+20; j-- {
			idx[j], idx[j-1] = idx[j-1], idx[j]
		}
	}
	return idx
}

var solverStartMu sync.Mutex
var slowLog = os.Getenv("VF_PROGRESS") != ""

func truncateStr(s string, n int) string {
	if len(s) > n {
		return s[:n] + "..."
	}
	return s
}

func NewSolver(timeoutMs int) *Solver {
	s := &Solver{TimeoutMs: timeoutMs, cache: map[string]Result{}, StageMs: 400, wins: make([]int, len(backends))}
	s.Stats.TimeS = map[string]float64{}
	s.Stats.ByBack = map[string]int{}
	s.procs = make([]*proc, len(backends))
	return s
}

func (s *Solver) Close() {
	for _, p := range s.procs {
		if p != nil {
			p.send("(exit)")
			p.kill()
		}
	}
}

func (s *Solver) proc(i int) *proc {
	if s.procs[i] == nil || s.procs[i].dead {
		p, err := startProc(backends[i])
		if err != nil {
			return nil
		}
		s.procs[i] = p
	}
	return s.procs[i]
}

// buildQuery renders new declarations, synchronises the solver's assertion
// stack with the path condition pc (one push level per conjunct, shared
// prefixes are kept) and opens a query-level scope with the extra assertions.
func (s *Solver) buildQuery(p *proc, pc []*Term, extra []*Term, getVals []*Term) string {
	vars := map[string]Sort{}
	apps := map[string]bool{}
	for _, a := range pc {
		a.Vars(vars)
		a.Apps(apps)
	}
	for _, a := range extra {
		a.Vars(vars)
		a.Apps(apps)
	}
	for _, g := range getVals {
		g.Vars(vars)
	}
	var b strings.Builder
	for _, n := range sortedKeys(vars) {
		if !p.declared[n] {
			p.declared[n] = true
			fmt.Fprintf(&b, "(declare-const %s %s)\n", n, vars[n])
		}
	}
	for _, f := range sortedKeys(apps) {
		if !p.declared["fn:"+f] {
			p.declared["fn:"+f] = true
			switch {
			case strings.HasPrefix(f, "FI"): // String -> Int
				fmt.Fprintf(&b, "(declare-fun %s (String) Int)\n", f)
			case strings.HasPrefix(f, "IS"):
				fmt.Fprintf(&b, "(declare-fun %s (Int) String)\n", f)
			default:
				fmt.Fprintf(&b, "(declare-fun %s (String) String)\n", f)
			}
		}
	}
	common := 0
	for common < len(p.stack) && common < len(pc) && p.stack[common] == pc[common].Key() {
		common++
	}
	if len(p.stack) > common {
		fmt.Fprintf(&b, "(pop %d)\n", len(p.stack)-common)
		p.stack = p.stack[:common]
	}
	for k := common; k < len(pc); k++ {
		fmt.Fprintf(&b, "(push 1)\n(assert %s)\n", pc[k].SMT())
		p.stack = append(p.stack, pc[k].Key())
	}
	b.WriteString("(push 1)\n")
	for _, a := range extra {
		fmt.Fprintf(&b, "(assert %s)\n", a.SMT())
	}
	all := append(append([]*Term(nil), pc...), extra...)
	for _, ax := range qAxioms(all) {
		fmt.Fprintf(&b, "(assert %s)\n", ax.SMT())
	}
	return b.String()
}

// safeQuoteRe: strings that %+q renders verbatim between quotes.
var safeQuoteRe = &Regex{Pattern: "safe", SMT: `(re.* (re.union (re.range " " "!") (re.range "#" "[") (re.range "]" "~")))`}
var quotedOutRe = &Regex{Pattern: "quoted", SMT: `(re.++ (str.to_re """") (re.* (re.union (re.range " " "!") (re.range "#" "[") (re.range "]" "~") (re.++ (str.to_re "\u{5c}") (re.range " " "~")))) (str.to_re """"))`}

var (
	appAxMu   sync.Mutex
	appAxioms = map[string]func(app *Term) []*Term{}
)

// RegisterAppAxioms installs the per-application contract of an uninterpreted
// function symbol (instantiated for every application occurring in a query).
func RegisterAppAxioms(name string, gen func(app *Term) []*Term) {
	appAxMu.Lock()
	appAxioms[name] = gen
	appAxMu.Unlock()
}

// qAxioms instantiates the contract of the uninterpreted quoting function
// Q (= fmt's %+q / strconv.QuoteToASCII) for every application in the query.
func qAxioms(asserts []*Term) []*Term {
	seen := map[string]*Term{}
	blens := map[string]*Term{}
	others := map[string]*Term{}
	var walk func(t *Term)
	walk = func(t *Term) {
		if t.Op == "app:Q" {
			seen[t.Key()] = t
		}
		if t.Op == "app:FIblen" {
			blens[t.Key()] = t
		} else if strings.HasPrefix(t.Op, "app:") && t.Op != "app:Q" {
			others[t.Key()] = t
		}
		for _, a := range t.Args {
			walk(a)
		}
	}
	for _, a := range asserts {
		walk(a)
	}
	var out []*Term
	for _, k := range sortedKeys(others) {
		t := others[k]
		appAxMu.Lock()
		gen := appAxioms[t.Op[4:]]
		appAxMu.Unlock()
		if gen != nil {
			out = append(out, gen(t)...)
		}
	}
	for _, k := range sortedKeys(blens) {
		b := blens[k]
		arg := b.Args[0]
		l := &Term{Op: "str.len", Args: []*Term{arg}, Sort: SInt}
		out = append(out,
			&Term{Op: "<=", Args: []*Term{l, b}, Sort: SBool},
			&Term{Op: "<=", Args: []*Term{b, &Term{Op: "*", Args: []*Term{IntT(4), l}, Sort: SInt}}, Sort: SBool},
			Implies(&Term{Op: "in_re", Args: []*Term{arg}, Sort: SBool, Re: asciiRe}, &Term{Op: "=", Args: []*Term{b, l}, Sort: SBool}),
		)
		c := &Term{Op: "str.to_code", Args: []*Term{arg}, Sort: SInt}
		w := &Term{Op: "ite", Sort: SInt, Args: []*Term{Lt(c, IntT(128)), IntT(1),
			&Term{Op: "ite", Sort: SInt, Args: []*Term{Lt(c, IntT(2048)), IntT(2),
				&Term{Op: "ite", Sort: SInt, Args: []*Term{Lt(c, IntT(65536)), IntT(3), IntT(4)}}}}}}
		out = append(out, Implies(&Term{Op: "=", Args: []*Term{l, IntT(1)}, Sort: SBool}, &Term{Op: "=", Args: []*Term{b, w}, Sort: SBool}))
	}
	keys := sortedKeys(seen)
	for _, k := range keys {
		q := seen[k]
		arg := q.Args[0]
		lit := Concat(StrT(`"`), arg, StrT(`"`))
		safe := &Term{Op: "in_re", Args: []*Term{arg}, Sort: SBool, Re: safeQuoteRe}
		out = append(out,
			Implies(safe, &Term{Op: "=", Args: []*Term{q, lit}, Sort: SBool}),
			Implies(Not(safe), Not(&Term{Op: "=", Args: []*Term{q, lit}, Sort: SBool})),
			&Term{Op: "in_re", Args: []*Term{q}, Sort: SBool, Re: quotedOutRe},
			Ge(&Term{Op: "str.len", Args: []*Term{q}, Sort: SInt}, Add(Len(arg), IntT(2))),
		)
	}
	for i := 0; i < len(keys); i++ {
		for j := i + 1; j < len(keys); j++ {
			a, b := seen[keys[i]], seen[keys[j]]
			out = append(out, Implies(
				&Term{Op: "=", Args: []*Term{a, b}, Sort: SBool},
				Eq(a.Args[0], b.Args[0])))
		}
	}
	return out
}

func cacheKey(asserts []*Term) string {
	ks := make([]string, len(asserts))
	for i, a := range asserts {
		ks[i] = a.Key()
	}
	// order-insensitive
	sortStrings(ks)
	return strings.Join(ks, "\n")
}

func sortStrings(a []string) {
	for i := 1; i < len(a); i++ {
		for j := i; j > 0 && a[j] < a[j-1]; j-- {
			a[j], a[j-1] = a[j-1], a[j]
		}
	}
}

// Check decides satisfiability of the conjunction.
func (s *Solver) Check(asserts []*Term) Result {
	r, _ := s.check(nil, asserts, nil, true)
	return r
}

// CheckModel decides satisfiability and, if sat, returns values for vals.
func (s *Solver) CheckModel(asserts []*Term, vals []*Term) (Result, map[string]ModelVal) {
	return s.check(nil, asserts, vals, false)
}

// CheckPC decides pc ∧ extra, keeping pc on the solvers' assertion stacks.
func (s *Solver) CheckPC(pc []*Term, extra []*Term) Result {
	r, _ := s.check(pc, extra, nil, true)
	return r
}

// CheckPCModel is CheckPC with a model.
func (s *Solver) CheckPCModel(pc []*Term, extra []*Term, vals []*Term) (Result, map[string]ModelVal) {
	return s.check(pc, extra, vals, false)
}

func (s *Solver) check(pc []*Term, asserts []*Term, vals []*Term, useCache bool) (Result, map[string]ModelVal) {
	// trivial cases
	var live []*Term
	for _, a := range asserts {
		if a.IsConst() {
			if !a.B {
				return Unsat, nil
			}
			continue
		}
		live = append(live, a)
	}
	if len(live) == 0 && len(vals) == 0 && len(pc) == 0 {
		return Sat, map[string]ModelVal{}
	}
	var key string
	if useCache {
		key = cacheKey(append(append([]*Term(nil), pc...), live...))
		if r, ok := s.cache[key]; ok {
			s.Stats.CacheHit++
			return r, nil
		}
	}
	s.Stats.Queries++
	tq := time.Now()
	res := Unknown
	var model map[string]ModelVal
	type ans struct {
		i int
		r Result
		m map[string]ModelVal
	}
	ch := make(chan ans, len(backends))
	launched := make([]bool, len(backends))
	launch := func(i int) {
		launched[i] = true
		go func() {
			r, m := s.runOn(i, pc, live, vals)
			ch <- ans{i, r, m}
		}()
	}
	order := s.order()
	launch(order[0])
	pending := 1
	stage := time.NewTimer(time.Duration(s.StageMs) * time.Millisecond)
	defer stage.Stop()
	var answers []ans
loop:
	for pending > 0 {
		select {
		case a := <-ch:
			pending--
			if a.r != Unknown {
				answers = append(answers, a)
				if !s.CrossCheck || len(answers) >= 2 {
					break loop
				}
			}
			// primary gave up: start the others now
			for _, i := range order[1:] {
				if !launched[i] {
					launch(i)
					pending++
				}
			}
		case <-stage.C:
			for _, i := range order[1:] {
				if !launched[i] {
					launch(i)
					pending++
				}
			}
		}
	}
	if pending > 0 {
		// cancel the stragglers: kill their processes and drain
		for i, l := range launched {
			if !l {
				continue
			}
			done := false
			for _, a := range answers {
				if a.i == i {
					done = true
				}
			}
			if !done && s.procs[i] != nil {
				s.procs[i].kill()
			}
		}
		for pending > 0 {
			<-ch
			pending--
		}
	}
	if slowLog && time.Since(tq) > 5*time.Second {
		ex := ""
		for _, a := range live {
			ex += " " + truncateStr(a.SMT(), 300)
		}
		fmt.Fprintf(os.Stderr, "[slow query %.1fs pc=%d answers=%d]%s\n", time.Since(tq).Seconds(), len(pc), len(answers), ex)
	}
	if len(answers) > 0 {
		res, model = answers[0].r, answers[0].m
		s.Stats.ByBack[backends[answers[0].i].name]++
		s.wins[answers[0].i]++
		if len(answers) > 1 && answers[1].r != answers[0].r {
			s.Disagree = append(s.Disagree, fmt.Sprintf("%s=%v vs %s=%v on %s", backends[answers[0].i].name, answers[0].r, backends[answers[1].i].name, answers[1].r, cacheKey(live)))
			res = Unknown
		}
	}
	switch res {
	case Sat:
		s.Stats.Sat++
	case Unsat:
		s.Stats.Unsat++
	default:
		s.Stats.Unknown++
	}
	if useCache {
		s.cache[key] = res
	}
	return res, model
}

func (s *Solver) runOn(i int, pc []*Term, asserts []*Term, vals []*Term) (Result, map[string]ModelVal) {
	p := s.proc(i)
	if p == nil {
		return Unknown, nil
	}
	t0 := time.Now()
	defer func() {
		s.mu.Lock()
		s.Stats.TimeS[p.be.name] += time.Since(t0).Seconds()
		s.mu.Unlock()
	}()
	q := s.buildQuery(p, pc, asserts, vals)
	if p.be.timeoutOpt != "" {
		q = fmt.Sprintf(p.be.timeoutOpt, s.TimeoutMs) + "\n" + q
	}
	q += "(check-sat)\n"
	if s.Log != nil {
		fmt.Fprintf(s.Log, ";; ---- %s\n%s", p.be.name, q)
	}
	p.send(q)
	deadline := time.Now().Add(time.Duration(s.TimeoutMs)*time.Millisecond + 3*time.Second)
	res := Unknown
	gotErr := false
	for {
		l, ok := p.readLine(deadline)
		if !ok {
			// hard timeout or death: restart this backend
			p.kill()
			if s.Log != nil {
				fmt.Fprintf(s.Log, ";; %s: timeout/death\n", p.be.name)
			}
			return Unknown, nil
		}
		if s.Log != nil {
			fmt.Fprintf(s.Log, ";; <- %s  [%.0fms]\n", l, time.Since(t0).Seconds()*1000)
		}
		l = strings.TrimSpace(l)
		if strings.HasPrefix(l, "(error") {
			gotErr = true
			continue
		}
		if l == "sat" {
			res = Sat
			break
		}
		if l == "unsat" {
			res = Unsat
			break
		}
		if l == "unknown" || l == "timeout" {
			res = Unknown
			break
		}
	}
	if gotErr {
		// any (error line makes the answer inconclusive; restart to resync
		p.kill()
		return Unknown, nil
	}
	var model map[string]ModelVal
	if res == Sat && len(vals) > 0 {
		model = map[string]ModelVal{}
		for _, v := range vals {
			p.send("(get-value (" + v.SMT() + "))")
			txt, ok := readSexp(p, deadline)
			if !ok {
				p.kill()
				return Unknown, nil
			}
			if s.Log != nil {
				fmt.Fprintf(s.Log, ";; <- %s\n", txt)
			}
			mv, ok := parseGetValue(txt, v.Sort)
			if !ok {
				p.kill()
				return Unknown, nil
			}
			model[v.Key()] = mv
		}
	}
	p.send("(pop 1)")
	return res, model
}

// readSexp reads lines until parentheses balance.
func readSexp(p *proc, deadline time.Time) (string, bool) {
	var b strings.Builder
	depth := 0
	started := false
	for {
		l, ok := p.readLine(deadline)
		if !ok {
			return "", false
		}
		if strings.HasPrefix(strings.TrimSpace(l), "(error") {
			return "", false
		}
		inStr := false
		for i := 0; i < len(l); i++ {
			c := l[i]
			if c == '"' {
				inStr = !inStr
				continue
			}
			if inStr {
				continue
			}
			if c == '(' {
				depth++
				started = true
			} else if c == ')' {
				depth--
			}
		}
		b.WriteString(l)
		b.WriteByte('\n')
		if started && depth <= 0 {
			return b.String(), true
		}
	}
}

// parseGetValue parses "((<term> <value>))".
func parseGetValue(txt string, sort Sort) (ModelVal, bool) {
	t := strings.TrimSpace(txt)
	// strip outer "((" and "))"
	if !strings.HasPrefix(t, "((") || !strings.HasSuffix(t, "))") {
		return ModelVal{}, false
	}
	t = strings.TrimSpace(t[2 : len(t)-2])
	switch sort {
	case SString:
		// the value is the last string literal: find its opening quote by scanning from the end
		if !strings.HasSuffix(t, `"`) {
			return ModelVal{}, false
		}
		// scan backwards over a literal with "" escapes
		i := len(t) - 2
		for i >= 0 {
			if t[i] == '"' {
				if i > 0 && t[i-1] == '"' {
					i -= 2
					continue
				}
				break
			}
			i--
		}
		if i < 0 {
			return ModelVal{}, false
		}
		lit := t[i+1 : len(t)-1]
		return ModelVal{Sort: SString, S: unescapeSMT(lit)}, true
	case SBool:
		if strings.HasSuffix(t, " true") {
			return ModelVal{Sort: SBool, B: true}, true
		}
		if strings.HasSuffix(t, " false") {
			return ModelVal{Sort: SBool, B: false}, true
		}
		return ModelVal{}, false
	default:
		// "... 5" or "... (- 5)"
		if strings.HasSuffix(t, ")") {
			j := strings.LastIndex(t, "(-")
			if j < 0 {
				return ModelVal{}, false
			}
			num := strings.TrimSpace(t[j+2 : len(t)-1])
			n, err := strconv.ParseInt(num, 10, 64)
			if err != nil {
				return ModelVal{}, false
			}
			return ModelVal{Sort: SInt, I: -n}, true
		}
		j := strings.LastIndexAny(t, " \n\t")
		n, err := strconv.ParseInt(t[j+1:], 10, 64)
		if err != nil {
			return ModelVal{}, false
		}
		return ModelVal{Sort: SInt, I: n}, true
	}
}

func unescapeSMT(s string) string {
	var b strings.Builder
	for i := 0; i < len(s); i++ {
		c := s[i]
		if c == '"' && i+1 < len(s) && s[i+1] == '"' {
			b.WriteByte('"')
			i++
			continue
		}
		if c == '\\' && i+1 < len(s) {
			if s[i+1] == 'u' && i+2 < len(s) && s[i+2] == '{' {
				j := strings.IndexByte(s[i:], '}')
				if j > 0 {
					if n, err := strconv.ParseInt(s[i+3:i+j], 16, 32); err == nil {
						b.WriteRune(rune(n))
						i += j
						continue
					}
				}
			} else if s[i+1] == 'u' && i+5 < len(s) {
				if n, err := strconv.ParseInt(s[i+2:i+6], 16, 32); err == nil {
					b.WriteRune(rune(n))
					i += 5
					continue
				}
			} else if s[i+1] == 'x' && i+3 < len(s) {
				if n, err := strconv.ParseInt(s[i+2:i+4], 16, 32); err == nil {
					b.WriteRune(rune(n))
					i += 3
					continue
				}
			}
		}
		b.WriteByte(c)
	}
	return b.String()
}
