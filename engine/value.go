package engine

import (
	"fmt"
	"go/types"
	"strings"

	"golang.org/x/tools/go/ssa"
)

// Value is an engine value:
//
//	bool | int64 | string | float64         concrete scalars
//	*Term                                    symbolic Bool / Int / String
//	*Struct | *Array | Tuple                 aggregates (immutable)
//	Pointer | Slice | MapRef | Iface         references
//	*Closure | *ssa.Function | *ssa.Builtin  function values
//	*Native                                  engine-native objects (errors, regexps, ...)
type Value interface{}

type Struct struct{ F []Value }
type Array struct{ E []Value }
type Tuple []Value

// Cell is a mutable heap location holding a value tree.
type Cell struct {
	V  Value
	ID int
}

// Pointer addresses a sub-value of a cell; C == nil is the nil pointer.
type Pointer struct {
	C    *Cell
	Path []int
}

// Slice: C holds an *Array; C == nil is the nil slice.
type Slice struct {
	C             *Cell
	Off, Len, Cap int
}

type MapObj struct {
	ID   int
	Keys []Value
	Vals []Value
}

// MapRef: M == nil is the nil map.
type MapRef struct{ M *MapObj }

// Iface: T == nil is the nil interface.
type Iface struct {
	T types.Type
	V Value
}

type Closure struct {
	Fn  *ssa.Function
	Env []Value
}

// Native is an engine-implemented object (an error made by fmt.Errorf, a
// compiled regexp, a reflect.Type, a graph, ...). Kind selects the method
// table.
type Native struct {
	Kind string
	ID   int
	// errors
	Msg     Value // string value
	Wrapped Value // Iface (error) or nil
	// regexp
	Re *Regex
	// reflect type
	RT types.Type
	// graph
	Edges *[][2]Value
	// generic payload
	X   map[string]Value
	Any interface{}
	// lazily checked string (a regexp capture whose uniqueness is only
	// established if the program actually uses it)
	Force func() *Term
}

// SymFloat is a float64 of which only the class is known.
type SymFloat struct {
	Class string // "finite", "+Inf", "-Inf", "NaN"
	Text  *Term  // what strconv.FormatFloat(x,'f',-1,64) returns
}

func isNilPointer(v Value) bool {
	p, ok := v.(Pointer)
	return ok && p.C == nil
}

func typeIsString(t types.Type) bool {
	b, ok := t.Underlying().(*types.Basic)
	return ok && b.Info()&types.IsString != 0
}

func typeIsInt(t types.Type) bool {
	b, ok := t.Underlying().(*types.Basic)
	return ok && b.Info()&types.IsInteger != 0
}

func typeIsBool(t types.Type) bool {
	b, ok := t.Underlying().(*types.Basic)
	return ok && b.Info()&types.IsBoolean != 0
}

func typeIsFloat(t types.Type) bool {
	b, ok := t.Underlying().(*types.Basic)
	return ok && b.Info()&types.IsFloat != 0
}

// zero returns the zero value of t.
func zero(t types.Type) Value {
	switch u := t.Underlying().(type) {
	case *types.Basic:
		switch {
		case u.Info()&types.IsBoolean != 0:
			return false
		case u.Info()&types.IsInteger != 0:
			return int64(0)
		case u.Info()&types.IsString != 0:
			return ""
		case u.Info()&types.IsFloat != 0:
			return float64(0)
		case u.Kind() == types.UnsafePointer:
			return Pointer{}
		case u.Kind() == types.UntypedNil:
			return Pointer{}
		}
		panic(fmt.Sprintf("zero: unsupported basic %v", u))
	case *types.Struct:
		s := &Struct{F: make([]Value, u.NumFields())}
		for i := range s.F {
			s.F[i] = zero(u.Field(i).Type())
		}
		return s
	case *types.Array:
		a := &Array{E: make([]Value, u.Len())}
		for i := range a.E {
			a.E[i] = zero(u.Elem())
		}
		return a
	case *types.Pointer:
		return Pointer{}
	case *types.Slice:
		return Slice{}
	case *types.Map:
		return MapRef{}
	case *types.Interface:
		return Iface{}
	case *types.Signature:
		return (*Closure)(nil)
	case *types.Tuple:
		tp := make(Tuple, u.Len())
		for i := range tp {
			tp[i] = zero(u.At(i).Type())
		}
		return tp
	case *types.Chan:
		return Pointer{}
	}
	panic(fmt.Sprintf("zero: unsupported type %v", t))
}

// toTerm lifts a scalar value to a term.
func toTerm(v Value) *Term {
	switch x := v.(type) {
	case *Term:
		return x
	case bool:
		return BoolT(x)
	case int64:
		return IntT(x)
	case string:
		return StrT(x)
	case *Native:
		if x.Force != nil {
			return x.Force()
		}
	}
	panic(fmt.Sprintf("toTerm: not a scalar: %T %v", v, v))
}

// fromTerm lowers constant terms to concrete scalars.
func fromTerm(t *Term) Value {
	if t.IsConst() {
		switch t.Sort {
		case SBool:
			return t.B
		case SInt:
			return t.I
		default:
			return t.S
		}
	}
	return t
}

func isSym(v Value) bool {
	_, ok := v.(*Term)
	return ok
}

// getPath navigates a value tree.
func getPath(v Value, path []int) Value {
	for _, i := range path {
		switch x := v.(type) {
		case *Struct:
			v = x.F[i]
		case *Array:
			if i < 0 || i >= len(x.E) {
				panic(goPanic{msg: "index out of range"})
			}
			v = x.E[i]
		default:
			panic(fmt.Sprintf("getPath: cannot index %T", v))
		}
	}
	return v
}

// setPath returns a copy of v with the sub-value at path replaced.
func setPath(v Value, path []int, nv Value) Value {
	if len(path) == 0 {
		return nv
	}
	i := path[0]
	switch x := v.(type) {
	case *Struct:
		c := &Struct{F: append([]Value(nil), x.F...)}
		c.F[i] = setPath(x.F[i], path[1:], nv)
		return c
	case *Array:
		if i < 0 || i >= len(x.E) {
			panic(goPanic{msg: "index out of range"})
		}
		// arrays backing slices are mutated in place at the top level for speed
		c := &Array{E: append([]Value(nil), x.E...)}
		c.E[i] = setPath(x.E[i], path[1:], nv)
		return c
	}
	panic(fmt.Sprintf("setPath: cannot index %T", v))
}

func (p Pointer) load() Value {
	if p.C == nil {
		panic(goPanic{msg: "nil pointer dereference"})
	}
	return getPath(p.C.V, p.Path)
}

func (p Pointer) store(v Value) {
	if p.C == nil {
		panic(goPanic{msg: "nil pointer dereference"})
	}
	p.C.V = setPath(p.C.V, p.Path, v)
}

func (p Pointer) sub(i int) Pointer {
	np := make([]int, len(p.Path)+1)
	copy(np, p.Path)
	np[len(p.Path)] = i
	return Pointer{C: p.C, Path: np}
}

func samePath(a, b []int) bool {
	if len(a) != len(b) {
		return false
	}
	for i := range a {
		if a[i] != b[i] {
			return false
		}
	}
	return true
}

// sliceElems returns the live elements of a slice.
func sliceElems(s Slice) []Value {
	if s.C == nil {
		return nil
	}
	return s.C.V.(*Array).E[s.Off : s.Off+s.Len]
}

// describe renders a value for evidence samples / debugging.
func describe(v Value) string {
	switch x := v.(type) {
	case nil:
		return "<nil>"
	case *Term:
		return x.SMT()
	case string:
		return fmt.Sprintf("%q", x)
	case *Struct:
		parts := make([]string, len(x.F))
		for i, f := range x.F {
			parts[i] = describe(f)
		}
		return "{" + strings.Join(parts, " ") + "}"
	case *Array:
		parts := make([]string, len(x.E))
		for i, f := range x.E {
			parts[i] = describe(f)
		}
		return "[" + strings.Join(parts, " ") + "]"
	case Tuple:
		parts := make([]string, len(x))
		for i, f := range x {
			parts[i] = describe(f)
		}
		return "(" + strings.Join(parts, ", ") + ")"
	case Slice:
		if x.C == nil {
			return "[]nil"
		}
		parts := []string{}
		for _, e := range sliceElems(x) {
			parts = append(parts, describe(e))
		}
		return "[" + strings.Join(parts, " ") + "]"
	case Pointer:
		if x.C == nil {
			return "nil"
		}
		return fmt.Sprintf("&#%d%v", x.C.ID, x.Path)
	case MapRef:
		if x.M == nil {
			return "map(nil)"
		}
		parts := []string{}
		for i := range x.M.Keys {
			parts = append(parts, describe(x.M.Keys[i])+":"+describe(x.M.Vals[i]))
		}
		return "map[" + strings.Join(parts, " ") + "]"
	case Iface:
		if x.T == nil {
			return "iface(nil)"
		}
		return fmt.Sprintf("iface(%s:%s)", x.T, describe(x.V))
	case *Native:
		if x.Kind == "error" {
			return "error(" + describe(x.Msg) + ")"
		}
		return "native:" + x.Kind
	case *Closure:
		if x == nil {
			return "func(nil)"
		}
		return "closure:" + x.Fn.Name()
	case *ssa.Function:
		return "func:" + x.Name()
	}
	return fmt.Sprintf("%v", v)
}

// forceLazy replaces a lazily decomposed capture by its string term.
func forceLazy(v Value) Value {
	if n, ok := v.(*Native); ok && n.Force != nil {
		return fromTerm(n.Force())
	}
	return v
}
