package engine

import (
	"fmt"
	"go/types"
	"reflect"
	"regexp"
	"strconv"
	"strings"

	"golang.org/x/tools/go/ssa"

	"verif/skel"
)

// vfEmitted(code string) skel.Emitted: the rendered text (a concatenation of
// constant text and symbolic holes) becomes a skeleton in which every hole is
// a placeholder token; the skeleton is parsed and the recovered definition is
// handed to the harness with the placeholders turned back into their terms
// (DESIGN 3.12).

var holeRe = regexp.MustCompile(`"VFQ(\d+)Q"|VFH(\d+)H`)

func (m *Machine) skeletonOf(code *Term) (string, []*Term) {
	var holes []*Term
	var b strings.Builder
	for _, p := range concatParts(code) {
		if p.IsConst() {
			b.WriteString(p.S)
			continue
		}
		holes = append(holes, p)
		if p.Op == "app:Q" {
			fmt.Fprintf(&b, `"VFQ%dQ"`, len(holes)-1)
		} else {
			fmt.Fprintf(&b, "VFH%dH", len(holes)-1)
		}
	}
	return b.String(), holes
}

func holesToTerm(s string, holes []*Term) Value {
	idx := holeRe.FindAllStringSubmatchIndex(s, -1)
	if idx == nil {
		return s
	}
	var parts []*Term
	last := 0
	for _, m := range idx {
		parts = append(parts, StrT(s[last:m[0]]))
		g := m[2]
		e := m[3]
		if g < 0 {
			g, e = m[4], m[5]
		}
		n, _ := strconv.Atoi(s[g:e])
		parts = append(parts, holes[n])
		last = m[1]
	}
	parts = append(parts, StrT(s[last:]))
	return fromTerm(Concat(parts...))
}

// fromGo converts a Go value (strings, bools, ints, slices, structs) into an
// engine value of the given static type.
func (m *Machine) fromGo(v reflect.Value, t types.Type, holes []*Term) Value {
	switch u := t.Underlying().(type) {
	case *types.Basic:
		switch {
		case u.Info()&types.IsString != 0:
			return holesToTerm(v.String(), holes)
		case u.Info()&types.IsBoolean != 0:
			return v.Bool()
		case u.Info()&types.IsInteger != 0:
			return v.Int()
		}
	case *types.Slice:
		if v.IsNil() || v.Len() == 0 {
			return Slice{}
		}
		es := make([]Value, v.Len())
		for i := range es {
			es[i] = m.fromGo(v.Index(i), u.Elem(), holes)
		}
		return Slice{C: m.newCell(&Array{E: es}), Len: len(es), Cap: len(es)}
	case *types.Struct:
		s := &Struct{F: make([]Value, u.NumFields())}
		for i := range s.F {
			s.F[i] = m.fromGo(v.FieldByName(u.Field(i).Name()), u.Field(i).Type(), holes)
		}
		return s
	}
	unsupported("fromGo: type %s", t)
	return nil
}

func (m *Machine) vfEmitted(fn *ssa.Function, code Value) Value {
	ct := toTerm(forceLazy(code))
	text, holes := m.skeletonOf(ct)
	em := skel.Extract(text)
	if m.env["skeletons"] == nil {
		m.env["skeletons"] = []string{}
	}
	m.env["skeletons"] = append(m.env["skeletons"].([]string), text)
	return m.fromGo(reflect.ValueOf(em), fn.Signature.Results().At(0).Type(), holes)
}

// progImporter resolves imports from the packages loaded for the analysis
// (the repository's own dependencies, at the versions pinned in go.mod).
type progImporter struct{ prog *ssa.Program }

func (p progImporter) Import(path string) (*types.Package, error) {
	if sp := p.prog.ImportedPackage(path); sp != nil {
		return sp.Pkg, nil
	}
	return nil, fmt.Errorf("not loaded: %s", path)
}

// vfTypeErrors(code string, allowed string) []string: go/types on the
// skeleton of the rendered text (a concrete evaluation on a path-concrete
// term, DESIGN 3.12 obligation 5). allowed: space-separated current-package
// symbols the configuration names.
func (m *Machine) vfTypeErrors(code Value, allowed Value) Value {
	ct := toTerm(forceLazy(code))
	text, holes := m.skeletonOf(ct)
	text = canonHoles(text, holes)
	al, ok := forceLazy(allowed).(string)
	if !ok {
		// symbolic parts of the list are holes, accepted below by their placeholder name
		al, _ = m.skeletonOf(toTerm(forceLazy(allowed)))
	}
	set := map[string]bool{}
	for _, a := range strings.Fields(al) {
		set[a] = true
	}
	errs := skel.TypeErrors(text, progImporter{m.Prog}, func(n string) bool { return set[n] || strings.Contains(n, "VFH") })
	var out []Value
	for _, e := range errs {
		out = append(out, e)
	}
	return m.stringSlice(out)
}

// vfPruneImports(text string) string: skel.PruneImports on the skeleton of
// the text (a concrete evaluation; the holes are put back afterwards).
func (m *Machine) vfPruneImports(code Value) Value {
	v := forceLazy(code)
	if cs, ok := v.(string); ok {
		return skel.PruneImports(cs)
	}
	text, holes := m.skeletonOf(toTerm(v))
	return holesToTerm(skel.PruneImports(canonHoles(text, holes)), holes)
}

// canonHoles: holes are numbered per occurrence; for name resolution the same
// term must be the same identifier, so every hole is renamed to the first hole
// holding an identical term.
func canonHoles(text string, holes []*Term) string {
	canon := map[string]int{}
	return holeRe.ReplaceAllStringFunc(text, func(h string) string {
		sm := holeRe.FindStringSubmatch(h)
		if sm[2] == "" {
			return h
		}
		n, _ := strconv.Atoi(sm[2])
		key := holes[n].SMT()
		if c, ok := canon[key]; ok {
			return fmt.Sprintf("VFH%dH", c)
		}
		canon[key] = n
		return h
	})
}
