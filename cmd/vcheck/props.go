package main

import (
	"encoding/json"
	"fmt"
	"os"
	"os/exec"
	"path/filepath"
	"regexp"
	"runtime"
	"sort"
	"strings"
	"sync"
	"time"

	"verif/engine"
)

const modPath = "github.com/gontainer/gontainer/"

// HSpec is one harness function and the engine configuration it runs under.
type HSpec struct {
	Dir       string // package directory relative to the repo root
	Fn        string
	Perms     bool   // fork over all map iteration orders
	MaxStrLen [2]int // quick, thorough bound for forced string-length splits
	Tier      string // "" both, "thorough" only in thorough
	Timeout   [2]int // per-query ms quick, thorough (0 = default)
	Tries     int    // native replay repetitions (map-order counterexamples)
	Split     int    // >0: partition the path tree at this decision depth across workers
	InitPerms bool   // permute map ranges inside package initialisers too
	Witnesses int    // witness paths sampled for the translator self-test (default 4)
	Termination bool // totality harness: a loop that outruns the unwinding bound is a violation candidate (replayed under a deadline)
}

// Prop describes the check of one property.
type Prop struct {
	ID          string
	Level       string
	Harnesses   []HSpec
	Bounds      []string
	Outside     []string
	Stubs       []string
	Assumptions []string
	Extra       func(ctx *runCtx) // additional non-harness obligations
}

type runCtx struct {
	repo, root, tier string
	prog             *engine.Program
	prop             *Prop
	mu               sync.Mutex
	extraObligations int
	extraDischarged  int
	extraNotes       []string
	extraSamples     []map[string]interface{}
	inconclusive     []string
	violations       []confirmed
	selfValidated    int
	deadline         time.Time
	results          []*hResult
}

type confirmed struct {
	harness string
	msg     string
	dir     string
	known   string
}

type knownFinding struct {
	Property string `json:"property"`
	ID       string `json:"id"`
	Harness  string `json:"harness"`
	Status   string `json:"status"` // "known" | "fixed"
	Commit   string `json:"commit,omitempty"`
	What     string `json:"what"`
}

func loadKnown(root string) []knownFinding {
	b, err := os.ReadFile(filepath.Join(root, "known_findings.json"))
	if err != nil {
		return nil
	}
	var f struct {
		Findings []knownFinding `json:"findings"`
	}
	if json.Unmarshal(b, &f) != nil {
		return nil
	}
	return f.Findings
}

// allResults is set for Prop.Extra hooks.
type hResult struct {
	spec  HSpec
	res   *engine.HarnessResult
	stats engine.Stats
	wall  float64
	disag []string
}

// freshSrc is the container the current tree generates for freshCfg: the
// run-time helpers the templates emit are executed from it (package
// internal/zzvfgen, overlay only).
var freshSrc string

const freshCfg = `meta:
  pkg: zzvfgen
parameters:
  a: '%env("A")%'
  b: '%envInt("B")%'
  c: '%todo()%'
  d: 'x%a%y'
services:
  todoSvc:
    todo: true
  failing:
    constructor: '"errors".New'
    arguments: ["@todoSvc"]
    getter: GetFailing
    type: error
  okSvc:
    constructor: '"errors".New'
    arguments: ["boom"]
    getter: GetOk
    type: error
`

func freshContainer(repo string) (string, error) {
	dir, err := os.MkdirTemp("", "vfgen")
	if err != nil {
		return "", err
	}
	defer os.RemoveAll(dir)
	cfg := filepath.Join(dir, "c.yaml")
	out := filepath.Join(dir, "gen.go")
	os.WriteFile(cfg, []byte(freshCfg), 0o644)
	cmd := exec.Command("go", "run", ".", "build", "-i", cfg, "-o", out)
	cmd.Dir = repo
	cmd.Env = append(os.Environ(), "GOFLAGS=-mod=mod", "GOPROXY=off", "GOSUMDB=off", "GOTOOLCHAIN=local")
	if b, err := cmd.CombinedOutput(); err != nil {
		return "", fmt.Errorf("%v: %s", err, lastLines(string(b), 5))
	}
	b, err := os.ReadFile(out)
	return string(b), err
}

// buildOverlay: harness files, API shims, the skeleton package and the freshly
// generated container.
func buildOverlay(repo, root string) (map[string][]byte, error) {
	ov, err := engine.HarnessOverlay(repo, filepath.Join(root, "harness"))
	if err != nil {
		return nil, err
	}
	src, err := freshContainer(repo)
	if err != nil {
		fmt.Println("NOTE: the current tree does not generate the reference container (harnesses of internal/zzvfgen are left out):", err)
		for f := range ov {
			if strings.Contains(f, "/internal/zzvfgen/") {
				delete(ov, f)
				droppedHarness[f] = true
			}
		}
		return ov, nil
	}
	freshSrc = src
	ov[filepath.Join(repo, "internal", "zzvfgen", "gen.go")] = []byte(src)
	return ov, nil
}

// harness files left out because they do not compile against the current tree
var droppedHarness = map[string]bool{}

var harnessFileRe = regexp.MustCompile(`/[^\s:]*/zz_vf_[A-Za-z0-9_]+\.go`)

func runProperty(repo, root, id, tier, only string) int {
	t0 := time.Now()
	prop := findProp(id)
	if prop == nil {
		fmt.Printf("property %s: not claimed (see MANIFEST.json not_applicable)\n", id)
		return 2
	}
	seed := 0
	fmt.Sscanf(os.Getenv("VERIF_SEED"), "%d", &seed)
	ov, err := buildOverlay(repo, root)
	if err != nil {
		fmt.Println("INCONCLUSIVE: overlay:", err)
		return 2
	}
	prog, err := engine.Load(repo, ov)
	// a harness file that no longer compiles against the current tree (it names
	// a symbol the change removed) must not take the other harnesses down: it
	// is left out and the properties that need it come back inconclusive
	for try := 0; err != nil && try < 4; try++ {
		dropped := false
		for _, f := range harnessFileRe.FindAllString(err.Error(), -1) {
			if _, ok := ov[f]; ok && !strings.HasSuffix(f, "zz_vf_api.go") {
				delete(ov, f)
				droppedHarness[f] = true
				dropped = true
				fmt.Printf("NOTE: harness file %s does not compile against the current tree and is left out\n", f)
			}
		}
		if !dropped {
			break
		}
		prog, err = engine.Load(repo, ov)
	}
	if err != nil {
		fmt.Println("INCONCLUSIVE: cannot load /repo with harness overlay:", err)
		writeEvidence(root, prop, tier, seed, nil, nil, time.Since(t0).Seconds(), []string{"load: " + err.Error()}, 0)
		return 2
	}
	ctx := &runCtx{repo: repo, root: root, tier: tier, prog: prog, prop: prop}
	ctx.deadline = t0.Add(12 * time.Minute)
	if tier == "thorough" {
		ctx.deadline = t0.Add(150 * time.Minute)
	}

	var specs []HSpec
	for _, h := range prop.Harnesses {
		if h.Tier == "thorough" && tier != "thorough" {
			continue
		}
		if only != "" && !strings.Contains(h.Fn, only) {
			continue
		}
		specs = append(specs, h)
	}
	results := make([]*hResult, len(specs))
	var wg sync.WaitGroup
	for i := range specs {
		i := i
		wg.Add(1)
		go func() {
			defer wg.Done()
			results[i] = runOne(ctx, specs[i])
		}()
	}
	wg.Wait()
	ctx.results = results
	if prop.Extra != nil && only == "" {
		prop.Extra(ctx)
	}

	os.RemoveAll(filepath.Join(root, "replays", prop.ID))
	validated, stProblems := selfTest(ctx, results)
	ctx.selfValidated = validated
	ctx.inconclusive = append(ctx.inconclusive, stProblems...)

	// triage
	known := loadKnown(root)
	exit := 0
	var inconclusive []string
	inconclusive = append(inconclusive, ctx.inconclusive...)
	nViol := 0
	replays := 0
	printedKnown := map[string]bool{}
	for _, r := range results {
		if r == nil {
			continue
		}
		for _, inc := range r.res.Inconclusive {
			inconclusive = append(inconclusive, r.spec.Fn+": "+inc)
		}
		for _, d := range r.disag {
			inconclusive = append(inconclusive, r.spec.Fn+": solver disagreement: "+d)
		}
		if len(r.res.Reached) == 0 && len(r.res.Inconclusive) == 0 {
			inconclusive = append(inconclusive, r.spec.Fn+": VACUOUS: no feasible path reaches vfReach")
		}
		for vi, v := range r.res.Violations {
			dir := filepath.Join(root, "replays", prop.ID, fmt.Sprintf("%s-%d", r.spec.Fn, vi))
			ok, out := replayViolation(ctx, r.spec, v, dir)
			replays++
			kid := knownID(v)
			if !ok {
				inconclusive = append(inconclusive, fmt.Sprintf("%s: UNCONFIRMED counterexample for %q (model %s): %s", r.spec.Fn, v.Msg, fmtModel(v), lastLines(out, 6)))
				continue
			}
			if kid != "" {
				var kf *knownFinding
				for i := range known {
					if known[i].ID == kid && known[i].Property == prop.ID && known[i].Status == "known" {
						kf = &known[i]
					}
				}
				if kf != nil {
					if !printedKnown[kid] {
						printedKnown[kid] = true
						fmt.Printf("KNOWN-FINDING: property=%s %s: %s (witness %s; replay=%s)\n", prop.ID, kf.ID, kf.What, fmtModel(v), dir)
					}
					continue
				}
			}
			nViol++
			fmt.Printf("VIOLATION property=%s replay=%s\n", prop.ID, dir)
			fmt.Printf("  harness=%s obligation=%q\n  model: %s\n", r.spec.Fn, v.Msg, fmtModel(v))
			exit = 1
		}
	}
	for _, c := range ctx.violations {
		nViol++
		fmt.Printf("VIOLATION property=%s replay=%s\n  %s: %s\n", prop.ID, c.dir, c.harness, c.msg)
		exit = 1
	}
	wall := time.Since(t0).Seconds()
	writeEvidence(root, prop, tier, seed, results, ctx, wall, inconclusive, nViol)
	for _, r := range results {
		if r == nil {
			continue
		}
		fmt.Printf("%-34s paths=%-5d pruned=%-5d asserts=%-5d queries=%-5d unknown=%-3d viol=%d  %.1fs\n",
			r.spec.Fn, r.res.Paths, r.res.Pruned, r.res.Asserts, r.stats.Queries, r.stats.Unknown, len(r.res.Violations), r.wall)
	}
	if len(inconclusive) > 0 {
		for _, i := range inconclusive {
			fmt.Println("INCONCLUSIVE:", i)
		}
		if exit == 0 {
			exit = 2
		}
	}
	fmt.Printf("property %s tier %s: %d harnesses, %d violations, %d replays, %.1fs, exit %d\n", prop.ID, tier, len(specs), nViol, replays, wall, exit)
	return exit
}

// knownID extracts "known:<id>" tags that the harness attached to the path.
func knownID(v engine.Violation) string {
	if i := strings.Index(v.Msg, "[known:"); i >= 0 {
		j := strings.Index(v.Msg[i:], "]")
		if j > 0 {
			return v.Msg[i+7 : i+j]
		}
	}
	return ""
}

func lastLines(s string, n int) string {
	ls := strings.Split(strings.TrimSpace(s), "\n")
	if len(ls) > n {
		ls = ls[len(ls)-n:]
	}
	return strings.Join(ls, " | ")
}

func pick(a [2]int, tier string, def int) int {
	v := a[0]
	if tier == "thorough" && a[1] != 0 {
		v = a[1]
	}
	if v == 0 {
		return def
	}
	return v
}

var slots = make(chan struct{}, 16)

func mergeResult(dst, src *engine.HarnessResult) {
	dst.Paths += src.Paths
	dst.Pruned += src.Pruned
	dst.Steps += src.Steps
	dst.Decisions += src.Decisions
	dst.Asserts += src.Asserts
	dst.UnwindChecks += src.UnwindChecks
	for k, v := range src.Reached {
		dst.Reached[k] += v
	}
	for k := range src.Functions {
		dst.Functions[k] = true
	}
	for _, v := range src.Violations {
		cnt := 0
		for _, x := range dst.Violations {
			if x.Msg == v.Msg {
				cnt++
			}
		}
		if cnt < 3 {
			dst.Violations = append(dst.Violations, v)
		}
	}
	for _, i := range src.Inconclusive {
		dup := false
		for _, x := range dst.Inconclusive {
			dup = dup || x == i
		}
		if !dup && len(dst.Inconclusive) < 20 {
			dst.Inconclusive = append(dst.Inconclusive, i)
		}
	}
	if len(dst.Samples) < 6 {
		dst.Samples = append(dst.Samples, src.Samples...)
	}
	for k := range src.Notes {
		if dst.Notes == nil {
			dst.Notes = map[string]bool{}
		}
		dst.Notes[k] = true
	}
	for k, v := range src.RangeSites {
		if dst.RangeSites == nil {
			dst.RangeSites = map[string]int{}
		}
		dst.RangeSites[k] += v
	}
	if len(dst.Witnesses) < 6 {
		dst.Witnesses = append(dst.Witnesses, src.Witnesses...)
	}
}

func mergeStats(dst *engine.Stats, src engine.Stats) {
	dst.Queries += src.Queries
	dst.Sat += src.Sat
	dst.Unsat += src.Unsat
	dst.Unknown += src.Unknown
	dst.CacheHit += src.CacheHit
	if dst.TimeS == nil {
		dst.TimeS = map[string]float64{}
	}
	for k, v := range src.TimeS {
		dst.TimeS[k] += v
	}
}

func pickW(h HSpec) int {
	if h.Witnesses > 0 {
		return h.Witnesses
	}
	return 4
}

func runOne(ctx *runCtx, h HSpec) *hResult {
	t0 := time.Now()
	fn := ctx.prog.Func(pkgPathOf(h.Dir), h.Fn)
	if h.Dir == "." {
		fn = ctx.prog.Func(strings.TrimSuffix(modPath, "/"), h.Fn)
	}
	res := &hResult{spec: h}
	if fn == nil {
		res.res = &engine.HarnessResult{Name: h.Fn, Inconclusive: []string{"harness function not found in " + h.Dir}, Reached: map[string]int{}, Functions: map[string]bool{}}
		return res
	}
	defTimeout := 20000
	if ctx.tier == "thorough" {
		defTimeout = 120000
	}
	symLoop := 0
	if h.Termination {
		// totality harnesses run on inputs of a few code points: a loop that takes
		// more input-dependent iterations than this is not making progress
		symLoop = 24
	}
	cfg := engine.Config{MaxSymLoop: symLoop, Tier: ctx.tier, MapPerms: h.Perms, MaxStrLen: pick(h.MaxStrLen, ctx.tier, 8), MaxWallS: 420, Witnesses: pickW(h), PermsInInit: h.InitPerms, NonTermIsViolation: h.Termination}
	if ctx.tier == "thorough" {
		cfg.MaxWallS = 5400
	}
	cfg.Deadline = ctx.deadline
	var mu sync.Mutex
	// job runs one exploration (whole tree, frontier phase, or a subtree)
	job := func(run func(m *engine.Machine) *engine.HarnessResult) (out *engine.HarnessResult) {
		slots <- struct{}{}
		defer func() { <-slots }()
		s := engine.NewSolver(pick(h.Timeout, ctx.tier, defTimeout))
		defer s.Close()
		m := engine.NewMachine(ctx.prog.Prog, s, cfg, nil)
		defer func() {
			if r := recover(); r != nil {
				buf := make([]byte, 4096)
				n := runtime.Stack(buf, false)
				out = m.Res
				if out == nil {
					out = &engine.HarnessResult{Name: h.Fn, Reached: map[string]int{}, Functions: map[string]bool{}}
				}
				out.Inconclusive = append(out.Inconclusive, fmt.Sprintf("engine crash: %v\n%s", r, buf[:n]))
			}
			mu.Lock()
			mergeStats(&res.stats, s.Stats)
			res.disag = append(res.disag, s.Disagree...)
			mu.Unlock()
		}()
		return run(m)
	}
	if h.Split <= 0 {
		res.res = job(func(m *engine.Machine) *engine.HarnessResult { return m.RunHarness(fn) })
	} else {
		var frontier [][]int
		res.res = job(func(m *engine.Machine) *engine.HarnessResult {
			r, f := m.RunFrontier(fn, h.Split)
			frontier = f
			return r
		})
		var wg sync.WaitGroup
		for _, pre := range frontier {
			pre := pre
			wg.Add(1)
			go func() {
				defer wg.Done()
				r := job(func(m *engine.Machine) *engine.HarnessResult { return m.RunFrom(fn, pre) })
				mu.Lock()
				mergeResult(res.res, r)
				mu.Unlock()
			}()
		}
		wg.Wait()
	}
	res.wall = time.Since(t0).Seconds()
	return res
}

// ---------------------------------------------------------------------------
// replay

func modelJSON(v engine.Violation, tier string) []byte {
	m := map[string]interface{}{"tier": tier}
	for k, mv := range v.Model {
		switch mv.Sort {
		case engine.SString:
			m[k] = mv.S
		case engine.SInt:
			m[k] = mv.I
		default:
			m[k] = mv.B
		}
	}
	b, _ := json.MarshalIndent(m, "", " ")
	return b
}

const replayTestTmpl = `package PKG

import (
	"bytes"
	"encoding/json"
	"os"
	"testing"
)

func TestVFReplay(t *testing.T) {
	if err := vfLoadModel(os.Getenv("VF_MODEL")); err != nil {
		t.Fatalf("VF-SETUP: %v", err)
	}
	f := vfHarnesses[os.Getenv("VF_HARNESS")]
	if f == nil {
		t.Fatalf("VF-SETUP: unknown harness %q", os.Getenv("VF_HARNESS"))
	}
	tries := TRIES
	for i := 0; i < tries; i++ {
		fails, skipped := vfRun(f)
		if len(fails) > 0 {
			t.Fatalf("VF-VIOLATION (try %d, skipped=%v): %v", i, skipped, fails)
		}
		if skipped && i == 0 && tries == 1 {
			t.Logf("VF-SKIPPED: an assumption is false under the model")
		}
	}
}

// TestVFSelfTest: translator validation (DESIGN 3.16). Runs every witness
// model natively and writes the observation traces.
func TestVFSelfTest(t *testing.T) {
	in := os.Getenv("VF_SELFTEST_IN")
	if in == "" {
		t.Skip("no self-test input")
	}
	b, err := os.ReadFile(in)
	if err != nil {
		t.Fatalf("VF-SETUP: %v", err)
	}
	var cases []struct {
		Harness string
		Model   map[string]interface{}
	}
	dec := json.NewDecoder(bytes.NewReader(b))
	dec.UseNumber()
	if err := dec.Decode(&cases); err != nil {
		t.Fatalf("VF-SETUP: %v", err)
	}
	out := make([][]string, len(cases))
	for i, c := range cases {
		f := vfHarnesses[c.Harness]
		if f == nil {
			out[i] = []string{"unknown harness"}
			continue
		}
		vfSetModel(c.Model)
		out[i] = vfRunTrace(f)
	}
	ob, _ := json.Marshal(out)
	if err := os.WriteFile(os.Getenv("VF_SELFTEST_OUT"), ob, 0o644); err != nil {
		t.Fatalf("VF-SETUP: %v", err)
	}
}
`

// writeReplay materialises a replay directory; returns the go test argv.
func writeReplay(repo, root string, h HSpec, v engine.Violation, tier, dir string) error {
	if err := os.MkdirAll(dir, 0o755); err != nil {
		return err
	}
	if err := os.WriteFile(filepath.Join(dir, "model.json"), modelJSON(v, tier), 0o644); err != nil {
		return err
	}
	if err := writeOverlay(repo, root, h.Dir, dir, h.Tries); err != nil {
		return err
	}
	meta := map[string]interface{}{
		"harness": h.Fn, "dir": h.Dir, "obligation": v.Msg, "kind": v.Kind, "tags": v.Tags, "tier": tier,
		"cmd": fmt.Sprintf("cd %s && VF_MODEL=%s VF_HARNESS=%s go test -vet=off -count=1 -overlay %s -run '^TestVFReplay$' ./%s",
			repo, filepath.Join(dir, "model.json"), h.Fn, filepath.Join(dir, "overlay.json"), h.Dir),
	}
	mb, _ := json.MarshalIndent(meta, "", " ")
	return os.WriteFile(filepath.Join(dir, "meta.json"), mb, 0o644)
}

// writeOverlay writes overlay.json (harness sources of the package, the API
// shim and the replay/self-test test file) into dir.
func writeOverlay(repo, root, pkgDir, dir string, tries int) error {
	repl := map[string]string{}
	api, err := os.ReadFile(filepath.Join(root, "harness", "_api", "zz_vf_api.go.tmpl"))
	if err != nil {
		return err
	}
	stubRe := regexp.MustCompile(`func vfStub_([A-Za-z0-9]+)_([A-Za-z0-9]+)\(`)
	// every package that has harness files gets them (a harness may drive code
	// in other packages whose environment stubs live next to that code)
	var hdirs []string
	filepath.Walk(filepath.Join(root, "harness"), func(path string, info os.FileInfo, err error) error {
		if err == nil && info.IsDir() {
			rel, _ := filepath.Rel(filepath.Join(root, "harness"), path)
			if !strings.HasPrefix(rel, "_") {
				hdirs = append(hdirs, rel) // "." is the repository's root package
			}
		}
		return nil
	})
	targetPkg := ""
	for _, hd := range hdirs {
		hdir := filepath.Join(root, "harness", hd)
		ents, err := os.ReadDir(hdir)
		if err != nil {
			continue
		}
		pkg := ""
		type stub struct{ pkg, fn string }
		var stubs []stub
		for _, e := range ents {
			if e.IsDir() || !strings.HasPrefix(e.Name(), "zz_vf_") || !strings.HasSuffix(e.Name(), ".go") {
				continue
			}
			if droppedHarness[filepath.Join(repo, hd, e.Name())] {
				continue
			}
			repl[filepath.Join(repo, hd, e.Name())] = filepath.Join(hdir, e.Name())
			b, _ := os.ReadFile(filepath.Join(hdir, e.Name()))
			for _, l := range strings.Split(string(b), "\n") {
				if strings.HasPrefix(l, "package ") {
					pkg = strings.TrimSpace(strings.TrimPrefix(l, "package "))
					break
				}
			}
			for _, m := range stubRe.FindAllStringSubmatch(string(b), -1) {
				stubs = append(stubs, stub{m[1], m[2]})
			}
		}
		if pkg == "" {
			continue
		}
		tag := strings.ReplaceAll(hd, "/", "_")
		if hd == "." {
			tag = "root"
		}
		apiPath := filepath.Join(dir, "zz_vf_api_"+tag+".go.txt")
		os.WriteFile(apiPath, []byte(strings.Replace(string(api), "package PKG", "package "+pkg, 1)), 0o644)
		repl[filepath.Join(repo, hd, "zz_vf_api.go")] = apiPath
		if hd == pkgDir {
			targetPkg = pkg
		}
		// native environment stubs: calls <pkg>.<Func>( in the package's own
		// files are redirected to vfStub_<pkg>_<Func> in a rewritten copy of the
		// current source (the engine does the same redirection by name)
		if hd == "internal/zzvfgen" {
			// the package exists only as generated text
			gp := filepath.Join(dir, "fresh_gen.go.txt")
			os.WriteFile(gp, []byte(freshSrc), 0o644)
			repl[filepath.Join(repo, hd, "gen.go")] = gp
		}
		if len(stubs) > 0 {
			type srcFile struct{ name, text string }
			var srcs []srcFile
			if hd == "internal/zzvfgen" {
				srcs = append(srcs, srcFile{"gen.go", freshSrc})
			} else {
				ents, _ := os.ReadDir(filepath.Join(repo, hd))
				for _, e := range ents {
					n := e.Name()
					if e.IsDir() || !strings.HasSuffix(n, ".go") || strings.HasSuffix(n, "_test.go") || strings.HasPrefix(n, "zz_vf_") {
						continue
					}
					b, err := os.ReadFile(filepath.Join(repo, hd, n))
					if err != nil {
						continue
					}
					srcs = append(srcs, srcFile{n, string(b)})
				}
			}
			for _, sf := range srcs {
				n := sf.name
				src := sf.text
				changed := false
				keep := ""
				// local names under which this file imports each package (by last path element)
				locals := map[string][]string{}
				for _, im := range importRe.FindAllStringSubmatch(src, -1) {
					path := im[2]
					base := path[strings.LastIndex(path, "/")+1:]
					base = strings.TrimSuffix(base, ".v3")
					local := im[1]
					if local == "" {
						local = base
					}
					locals[base] = append(locals[base], local)
				}
				for _, st := range stubs {
					for _, local := range locals[st.pkg] {
						callRe := regexp.MustCompile(`\b` + regexp.QuoteMeta(local) + `\.` + regexp.QuoteMeta(st.fn) + `\(`)
						if callRe.MatchString(src) {
							src = callRe.ReplaceAllString(src, "vfStub_"+st.pkg+"_"+st.fn+"(")
							keep += "\nvar _ = " + local + "." + st.fn
							changed = true
						}
					}
				}
				if changed {
					out := filepath.Join(dir, "rewritten_"+tag+"_"+n+".txt")
					os.WriteFile(out, []byte(src+keep+"\n"), 0o644)
					repl[filepath.Join(repo, hd, n)] = out
				}
			}
		}
	}
	if targetPkg == "" {
		return fmt.Errorf("no harness files for %s", pkgDir)
	}
	repl[filepath.Join(repo, "internal", "zzvfskel", "skel.go")] = filepath.Join(root, "skel", "skel.go")
	if tries == 0 {
		tries = 1
	}
	test := strings.Replace(replayTestTmpl, "package PKG", "package "+targetPkg, 1)
	test = strings.Replace(test, "TRIES", fmt.Sprint(tries), 1)
	testPath := filepath.Join(dir, "zz_vf_replay_test.go.txt")
	os.WriteFile(testPath, []byte(test), 0o644)
	repl[filepath.Join(repo, pkgDir, "zz_vf_replay_test.go")] = testPath
	ovb, _ := json.MarshalIndent(map[string]interface{}{"Replace": repl}, "", " ")
	return os.WriteFile(filepath.Join(dir, "overlay.json"), ovb, 0o644)
}

// selfTest is the translator validation of DESIGN 3.16: witness models of
// sampled paths are executed concretely by the engine and natively by the
// real build; the observation traces must be identical.
func selfTest(ctx *runCtx, results []*hResult) (validated int, problems []string) {
	type tcase struct {
		Harness string
		Model   map[string]interface{}
		engine  []string
	}
	byDir := map[string][]*tcase{}
	s := engine.NewSolver(5000)
	defer s.Close()
	for _, r := range results {
		if r == nil || r.res == nil {
			continue
		}
		fn := ctx.prog.Func(pkgPathOf(r.spec.Dir), r.spec.Fn)
		if fn == nil {
			continue
		}
		if r.spec.Perms && len(r.res.Violations) > 0 {
			continue // an order dependence was found: native runs legitimately differ from run to run
		}
		for _, w := range r.res.Witnesses {
			m := engine.NewMachine(ctx.prog.Prog, s, engine.Config{Tier: ctx.tier}, nil)
			var tr []string
			var problem string
			func() {
				defer func() {
					if rec := recover(); rec != nil {
						problem = fmt.Sprintf("engine crash in concrete run: %v", rec)
					}
				}()
				tr, problem = m.RunConcrete(fn, w)
			}()
			if problem != "" {
				problems = append(problems, fmt.Sprintf("%s: self-test: %s", r.spec.Fn, problem))
				continue
			}
			model := map[string]interface{}{"tier": ctx.tier}
			for k, mv := range w {
				switch mv.Sort {
				case engine.SString:
					model[k] = mv.S
				case engine.SInt:
					model[k] = mv.I
				default:
					model[k] = mv.B
				}
			}
			byDir[r.spec.Dir] = append(byDir[r.spec.Dir], &tcase{Harness: r.spec.Fn, Model: model, engine: tr})
		}
	}
	dirs := make([]string, 0, len(byDir))
	for d := range byDir {
		dirs = append(dirs, d)
	}
	sort.Strings(dirs)
	for _, d := range dirs {
		cases := byDir[d]
		dir := filepath.Join(ctx.root, "replays", ctx.prop.ID, "selftest-"+strings.ReplaceAll(d, "/", "_"))
		os.MkdirAll(dir, 0o755)
		if err := writeOverlay(ctx.repo, ctx.root, d, dir, 1); err != nil {
			problems = append(problems, "self-test: "+err.Error())
			continue
		}
		in, _ := json.Marshal(cases)
		os.WriteFile(filepath.Join(dir, "selftest_in.json"), in, 0o644)
		outPath := filepath.Join(dir, "selftest_out.json")
		os.Remove(outPath)
		out := goTest(ctx.repo, dir, "^TestVFSelfTest$", d, "VF_SELFTEST_IN="+filepath.Join(dir, "selftest_in.json"), "VF_SELFTEST_OUT="+outPath)
		ob, err := os.ReadFile(outPath)
		if err != nil {
			problems = append(problems, fmt.Sprintf("self-test in %s: native run produced no traces: %s", d, lastLines(string(out), 8)))
			continue
		}
		var native [][]string
		if json.Unmarshal(ob, &native) != nil || len(native) != len(cases) {
			problems = append(problems, fmt.Sprintf("self-test in %s: malformed native traces", d))
			continue
		}
		for i, c := range cases {
			if strings.Join(c.engine, "\n") == strings.Join(native[i], "\n") {
				validated++
				continue
			}
			diff := ""
			for j := 0; j < len(c.engine) || j < len(native[i]); j++ {
				e, n := "<none>", "<none>"
				if j < len(c.engine) {
					e = c.engine[j]
				}
				if j < len(native[i]) {
					n = native[i][j]
				}
				if e != n {
					diff = fmt.Sprintf("first difference at step %d: engine %q vs native %q", j, e, n)
					break
				}
			}
			mb, _ := json.Marshal(c.Model)
			problems = append(problems, fmt.Sprintf("%s: TRANSLATOR SELF-TEST MISMATCH: %s (model %s)", c.Harness, diff, truncateS(string(mb), 400)))
		}
	}
	return
}

func truncateS(s string, n int) string {
	if len(s) > n {
		return s[:n] + "..."
	}
	return s
}

// runReplay executes the native test; ok=true when the violation reproduces.
func runReplay(repo, dir string) (bool, string) {
	mb, err := os.ReadFile(filepath.Join(dir, "meta.json"))
	if err != nil {
		return false, err.Error()
	}
	var meta struct {
		Harness string `json:"harness"`
		Dir     string `json:"dir"`
		Kind    string `json:"kind"`
	}
	json.Unmarshal(mb, &meta)
	if meta.Kind == "nontermination" {
		// the real code must still be running after a deadline far beyond what
		// the harness needs on any terminating input (they finish within a second)
		s := goTest(repo, dir, "^TestVFReplay$", meta.Dir, "VF_MODEL="+filepath.Join(dir, "model.json"), "VF_HARNESS="+meta.Harness, "VF_TEST_TIMEOUT=60s")
		return strings.Contains(s, "test timed out") || strings.Contains(s, "VF-VIOLATION"), s
	}
	s := goTest(repo, dir, "^TestVFReplay$", meta.Dir, "VF_MODEL="+filepath.Join(dir, "model.json"), "VF_HARNESS="+meta.Harness)
	return strings.Contains(s, "VF-VIOLATION"), s
}

// goTest runs one test of package pkgDir of the repository under the overlay
// of dir. A package that exists only in the overlay has no directory to run
// in: its test binary is built with -c and run in dir.
func goTest(repo, dir, run, pkgDir string, env ...string) string {
	base := append(os.Environ(), "GOFLAGS=-mod=mod", "GOPROXY=off", "GOSUMDB=off", "GOTOOLCHAIN=local")
	base = append(base, env...)
	ov := filepath.Join(dir, "overlay.json")
	timeout := "10m"
	for _, e := range env {
		if strings.HasPrefix(e, "VF_TEST_TIMEOUT=") {
			timeout = strings.TrimPrefix(e, "VF_TEST_TIMEOUT=")
		}
	}
	if _, err := os.Stat(filepath.Join(repo, pkgDir)); err == nil {
		cmd := exec.Command("go", "test", "-vet=off", "-count=1", "-timeout", timeout, "-overlay", ov, "-run", run, "./"+pkgDir)
		cmd.Dir = repo
		cmd.Env = base
		out, _ := cmd.CombinedOutput()
		return string(out)
	}
	bin := filepath.Join(dir, "pkg.test")
	defer os.Remove(bin)
	cmd := exec.Command("go", "test", "-vet=off", "-c", "-o", bin, "-overlay", ov, "./"+pkgDir)
	cmd.Dir = repo
	cmd.Env = base
	if out, err := cmd.CombinedOutput(); err != nil {
		return string(out)
	}
	cmd = exec.Command(bin, "-test.count=1", "-test.timeout", timeout, "-test.run", run)
	cmd.Dir = dir
	cmd.Env = base
	out, _ := cmd.CombinedOutput()
	return string(out)
}

func pkgPathOf(dir string) string {
	if dir == "." {
		return strings.TrimSuffix(modPath, "/")
	}
	return modPath + dir
}

var replayMu sync.Mutex

// importRe matches one import spec line: optional local name and the path.
var importRe = regexp.MustCompile(`(?m)^\s*(?:import\s+)?([A-Za-z_][A-Za-z0-9_]*)?\s*"([^"]+)"\s*$`)

func replayViolation(ctx *runCtx, h HSpec, v engine.Violation, dir string) (bool, string) {
	replayMu.Lock()
	defer replayMu.Unlock()
	if err := writeReplay(ctx.repo, ctx.root, h, v, ctx.tier, dir); err != nil {
		return false, err.Error()
	}
	return runReplay(ctx.repo, dir)
}

func replayDir(repo, root, dir string) int {
	ok, out := runReplay(repo, dir)
	fmt.Println(out)
	if ok {
		fmt.Println("REPRODUCED: the recorded counterexample violates the obligation on the current tree")
		return 1
	}
	fmt.Println("NOT REPRODUCED on the current tree")
	return 0
}

// ---------------------------------------------------------------------------
// evidence

func writeEvidence(root string, prop *Prop, tier string, seed int, results []*hResult, ctx *runCtx, wall float64, inconclusive []string, nViol int) {
	states, transitions, asserts, queries, unsat, sat, unknown, pruned, decisions, unwinds := 0, 0, 0, 0, 0, 0, 0, 0, 0, 0
	solverTime := map[string]float64{}
	funcs := map[string]bool{}
	var samples []interface{}
	vac := map[string]int{}
	perHarness := []map[string]interface{}{}
	replays := 0
	for _, r := range results {
		if r == nil || r.res == nil {
			continue
		}
		states += r.res.Paths
		pruned += r.res.Pruned
		transitions += r.res.Steps
		asserts += r.res.Asserts
		decisions += r.res.Decisions
		unwinds += r.res.UnwindChecks
		queries += r.stats.Queries
		unsat += r.stats.Unsat
		sat += r.stats.Sat
		unknown += r.stats.Unknown
		replays += len(r.res.Violations)
		for k, v := range r.stats.TimeS {
			solverTime[k] += v
		}
		for f := range r.res.Functions {
			if !strings.Contains(f, "vf") && !strings.Contains(f, "VF_") {
				funcs[f] = true
			}
		}
		for k, v := range r.res.Reached {
			vac[k] += v
		}
		for i, s := range r.res.Samples {
			if i < 2 {
				samples = append(samples, s)
			}
		}
		perHarness = append(perHarness, map[string]interface{}{
			"harness": r.spec.Fn, "package": r.spec.Dir, "feasible_paths": r.res.Paths, "pruned_paths": r.res.Pruned,
			"assertions_discharged": r.res.Asserts, "queries": r.stats.Queries, "wall_s": round1(r.wall),
			"violations": len(r.res.Violations), "map_permutations": r.spec.Perms,
		})
	}
	var fl []string
	for f := range funcs {
		fl = append(fl, f)
	}
	sort.Strings(fl)
	extraObl, extraDis := 0, 0
	var notes []string
	if ctx != nil {
		replays += ctx.selfValidated
		extraObl, extraDis = ctx.extraObligations, ctx.extraDischarged
		notes = append(notes, ctx.extraNotes...)
		engineNotes := map[string]bool{}
		for _, r := range ctx.results {
			if r != nil && r.res != nil {
				for k := range r.res.Notes {
					engineNotes[k] = true
				}
			}
		}
		for k := range engineNotes {
			notes = append(notes, "input restriction: "+k)
		}
		sort.Strings(notes)
		for _, s := range ctx.extraSamples {
			samples = append(samples, s)
		}
	}
	if len(samples) == 0 {
		samples = append(samples, map[string]interface{}{"note": "no assertion was reached", "inconclusive": inconclusive})
	}
	if states == 0 {
		states = 0
	}
	cov := map[string]interface{}{
		"states":                        max1(states),
		"transitions":                   max1(transitions),
		"traces_validated_against_impl": replays,
		"samples":                       samples,
		"obligations":                   asserts + extraObl + nViol + len(inconclusive),
		"discharged":                    asserts + extraDis,
		"exhaustive":                    len(inconclusive) == 0,
		"selftest_traces_matched": func() int {
			if ctx != nil {
				return ctx.selfValidated
			}
			return 0
		}(),
		"explanation":       "traces_validated_against_impl = witness models of sampled paths run both concretely in the engine and natively in the real build with identical observation traces (translator self-test) + replayed counterexamples; states = feasible complete paths of the harnesses under symbolic execution of /repo's go/ssa; transitions = SSA instructions interpreted; obligations = solver queries (assertions, panic-freedom) that had to be unsat; every number is measured on this run.",
		"functions_encoded": fl,
		"bounds":            prop.Bounds,
		"outside_bounds":    prop.Outside,
		"stubs":             prop.Stubs,
		"pruned_paths":      pruned,
		"decisions":         decisions,
		"solver_queries":    queries,
		"solver_unsat":      unsat,
		"solver_sat":        sat,
		"solver_unknown":    unknown,
		"solver_time_s":     solverTime,
		"unwinding_checks":  unwinds,
		"vacuity_witnesses": vac,
		"harnesses":         perHarness,
		"inconclusive":      inconclusive,
		"notes":             notes,
		"solvers":           "z3 4.8.12 (primary), z3 5.1.0 and cvc5 1.0.3 as fall-backs on unknown",
	}
	ev := map[string]interface{}{
		"property_id": prop.ID,
		"tier":        tier,
		"seed":        seed,
		"level":       prop.Level,
		"coverage":    cov,
		"assumptions": prop.Assumptions,
		"wall_s":      round1(wall),
		"violations":  nViol,
	}
	os.MkdirAll(filepath.Join(root, "evidence"), 0o755)
	b, _ := json.MarshalIndent(ev, "", " ")
	os.WriteFile(filepath.Join(root, "evidence", prop.ID+".json"), append(b, '\n'), 0o644)
}

func round1(f float64) float64 { return float64(int(f*10+0.5)) / 10 }
func max1(i int) int {
	if i < 1 {
		return 1
	}
	return i
}
