package main

import (
	"fmt"
	"go/types"
	"sort"
	"strings"

	"golang.org/x/tools/go/ssa"
	"golang.org/x/tools/go/ssa/ssautil"

	"verif/engine"
)

// waivedRangeSites: range-over-map statements not yet driven by a C08
// harness, with the reason. Anything else that is uncovered makes C08
// inconclusive, so the claim cannot silently shrink.
var waivedRangeSites = map[string]string{}

// rangeInventory lists every range-over-map statement in repository code and
// checks that each was executed under permutation mode by some harness.
func rangeInventory(ctx *runCtx) {
	covered := map[string]int{}
	for _, r := range ctx.results {
		if r == nil || r.res == nil {
			continue
		}
		for k, v := range r.res.RangeSites {
			covered[k] += v
		}
	}
	sites := map[string]bool{}
	for fn := range ssautil.AllFunctions(ctx.prog.Prog) {
		pkg := fn.Pkg
		if pkg == nil && fn.Origin() != nil {
			pkg = fn.Origin().Pkg
		}
		if pkg == nil && fn.Parent() != nil {
			pkg = fn.Parent().Pkg
		}
		root := strings.TrimSuffix(modPath, "/")
		if pkg == nil || !(pkg.Pkg.Path() == root || strings.HasPrefix(pkg.Pkg.Path(), modPath)) {
			continue
		}
		for _, b := range fn.Blocks {
			for _, ins := range b.Instrs {
				rg, ok := ins.(*ssa.Range)
				if !ok {
					continue
				}
				if _, isMap := rg.X.Type().Underlying().(*types.Map); !isMap {
					continue
				}
				pos := ctx.prog.Prog.Fset.Position(rg.Pos())
				if strings.Contains(pos.Filename, "zz_vf_") || strings.Contains(pos.Filename, "/internal/zzvf") {
					continue
				}
				sites[engine.RangeSiteKey(rg)] = true
			}
		}
	}
	var keys []string
	for k := range sites {
		keys = append(keys, k)
	}
	sort.Strings(keys)
	var uncovered []string
	for _, k := range keys {
		ctx.extraObligations++
		if covered[k] > 0 {
			ctx.extraDischarged++
			continue
		}
		waived := false
		for w, why := range waivedRangeSites {
			if strings.Contains(k, w) {
				ctx.extraNotes = append(ctx.extraNotes, fmt.Sprintf("uncovered_map_range (waived): %s: %s", k, why))
				waived = true
			}
		}
		if !waived {
			uncovered = append(uncovered, k)
		}
	}
	ctx.extraSamples = append(ctx.extraSamples, map[string]interface{}{"range_over_map_sites": keys, "covered_under_permutations": covered})
	for _, u := range uncovered {
		ctx.inconclusive = append(ctx.inconclusive, "uncovered_map_range: "+u+" is not driven by any C08 harness")
	}
}
