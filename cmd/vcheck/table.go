package main

func findProp(id string) *Prop {
	for i := range props {
		if props[i].ID == id {
			return &props[i]
		}
	}
	return nil
}

var commonAssumptions = []string{
	"strings are valid UTF-8 sequences of code points <= U+2FFFF (SMT-LIB String); yaml.v3 rejects invalid UTF-8",
	"go/packages, go/ssa (x/tools v0.29.0), regexp/syntax front ends; z3 4.8.12 / z3 5.1.0 / cvc5 1.0.3",
	"the gosmt executor and its intrinsics (DESIGN §3); every counterexample is replayed natively before it is reported",
	"%+q / exporter output of a string is the uninterpreted injective function Q with the contract stated in DESIGN 3.4",
}

var props = []Prop{
	{
		ID: "C03", Level: "model_checking",
		Harnesses: []HSpec{
			{Dir: "internal/pkg/token", Fn: "VF_C03_chunks"},
			{Dir: "internal/pkg/token", Fn: "VF_C03_kind", MaxStrLen: [2]int{10, 12}},
			{Dir: "internal/pkg/token", Fn: "VF_C03_gocode"},
			{Dir: "internal/pkg/token", Fn: "VF_C03_double"},
			{Dir: "internal/pkg/token", Fn: "VF_C03_tokenize"},
		},
		Bounds:      []string{"Chunks: every string of <= 4 (quick) / 6 (thorough) code points over the full alphabet"},
		Outside:     []string{"strings longer than the bound", "invalid UTF-8", "evaluation of emitted closures by the runtime"},
		Stubs:       []string{"exporter.MustExport -> Q"},
		Assumptions: commonAssumptions,
	},
}
