package main

func findProp(id string) *Prop {
	for i := range props {
		if props[i].ID == id {
			return &props[i]
		}
	}
	return nil
}

var commonAssumptions = []string{
	"strings are valid UTF-8 sequences of code points <= U+2FFFF (SMT-LIB String); yaml.v3 rejects invalid UTF-8",
	"go/packages, go/ssa (x/tools v0.29.0), regexp/syntax front ends; z3 4.8.12 / z3 5.1.0 / cvc5 1.0.3",
	"the gosmt executor and its intrinsics (DESIGN §3); every counterexample is replayed natively before it is reported",
	"%+q / exporter output of a string is the uninterpreted injective function Q with the contract stated in DESIGN 3.4",
}

var props = []Prop{
	{
		ID: "C03", Level: "model_checking",
		Harnesses: []HSpec{
			{Dir: "internal/pkg/token", Fn: "VF_C03_chunks"},
			{Dir: "internal/pkg/token", Fn: "VF_C03_kind", MaxStrLen: [2]int{10, 12}},
			{Dir: "internal/pkg/token", Fn: "VF_C03_gocode"},
			{Dir: "internal/pkg/token", Fn: "VF_C03_double"},
			{Dir: "internal/pkg/token", Fn: "VF_C03_tokenize"},
		},
		Bounds:      []string{"Chunks: every string of <= 4 (quick) / 6 (thorough) code points over the full alphabet"},
		Outside:     []string{"strings longer than the bound", "invalid UTF-8", "evaluation of emitted closures by the runtime"},
		Stubs:       []string{"exporter.MustExport -> Q"},
		Assumptions: commonAssumptions,
	},
	{
		ID: "C11", Level: "model_checking",
		Harnesses: []HSpec{
			{Dir: "internal/pkg/input", Fn: "VF_C11_meta_pkg", MaxStrLen: [2]int{12, 16}},
			{Dir: "internal/pkg/input", Fn: "VF_C11_meta_type", MaxStrLen: [2]int{12, 16}},
			{Dir: "internal/pkg/input", Fn: "VF_C11_meta_ctor", MaxStrLen: [2]int{12, 16}},
			{Dir: "internal/pkg/input", Fn: "VF_C11_import_alias", MaxStrLen: [2]int{12, 16}},
			{Dir: "internal/pkg/input", Fn: "VF_C11_import_path", MaxStrLen: [2]int{12, 16}},
			{Dir: "internal/pkg/input", Fn: "VF_C11_fn_name", MaxStrLen: [2]int{12, 16}},
			{Dir: "internal/pkg/input", Fn: "VF_C11_fn_gofunc", MaxStrLen: [2]int{12, 16}},
			{Dir: "internal/pkg/input", Fn: "VF_C11_param_name", MaxStrLen: [2]int{12, 16}},
			{Dir: "internal/pkg/input", Fn: "VF_C11_param_value", MaxStrLen: [2]int{12, 16}},
			{Dir: "internal/pkg/input", Fn: "VF_C11_service_name", MaxStrLen: [2]int{12, 16}},
			{Dir: "internal/pkg/input", Fn: "VF_C11_getter", MaxStrLen: [2]int{12, 16}},
			{Dir: "internal/pkg/input", Fn: "VF_C11_type", MaxStrLen: [2]int{12, 16}},
			{Dir: "internal/pkg/input", Fn: "VF_C11_value", MaxStrLen: [2]int{12, 16}},
			{Dir: "internal/pkg/input", Fn: "VF_C11_constructor", MaxStrLen: [2]int{12, 16}},
			{Dir: "internal/pkg/input", Fn: "VF_C11_args", MaxStrLen: [2]int{12, 16}},
			{Dir: "internal/pkg/input", Fn: "VF_C11_call", MaxStrLen: [2]int{12, 16}},
			{Dir: "internal/pkg/input", Fn: "VF_C11_field", MaxStrLen: [2]int{12, 16}},
			{Dir: "internal/pkg/input", Fn: "VF_C11_tags", MaxStrLen: [2]int{12, 16}},
			{Dir: "internal/pkg/input", Fn: "VF_C11_decorator", MaxStrLen: [2]int{12, 16}},
			{Dir: "internal/pkg/input", Fn: "VF_C11_creation", MaxStrLen: [2]int{12, 16}},
			{Dir: "internal/pkg/input", Fn: "VF_C11_joint", MaxStrLen: [2]int{12, 16}},
			{Dir: "internal/pkg/input", Fn: "VF_C11_todo", MaxStrLen: [2]int{12, 16}},
			{Dir: "internal/pkg/input", Fn: "VF_C11_dup_getters"},
		},
		Bounds:      []string{"one symbolic string per grammar position, <= 6 code points quick / <= 9-10 thorough (getter 8/14), full Unicode alphabet; YAML values of every kind yaml.v3 produces, depth 1", "joint reporting: 4 simultaneous defects, strings <= 4"},
		Outside:     []string{"YAML node-kind errors raised inside yaml.v3 before validation", "violations detected only by later stages (pattern errors, must-getter without getter)", "strings beyond the bound"},
		Stubs:       []string{"reflect.TypeOf(container.New()) -> method set computed with go/types from the pinned runtime module"},
		Assumptions: commonAssumptions,
	},
	{
		ID: "C18", Level: "model_checking",
		Harnesses: []HSpec{
			{Dir: "internal/pkg/input", Fn: "VF_C18_gate", MaxStrLen: [2]int{16, 16}, Split: 6},
			{Dir: "internal/pkg/input", Fn: "VF_C18_parse", MaxStrLen: [2]int{16, 16}},
			{Dir: "internal/pkg/input", Fn: "VF_C18_skip", MaxStrLen: [2]int{16, 16}},
		},
		Bounds:      []string{"B and V = maj.min.patch+suffix, each numeral 0..99 canonical, suffix an ASCII [-+][0-9A-Za-z.-]* of <= 2 (quick) / 3 (thorough) characters", "arbitrary ASCII B and V of <= 5 / 7 characters for the parse and skip rules; V of every YAML scalar kind"},
		Outside:     []string{"numerals of 3+ digits", "non-ASCII version strings (byte-level code in x/mod/semver is executed under an ASCII guard)", "main.buildVersion's stripping of the linker-provided v (one strings.TrimPrefix)"},
		Stubs:       []string{"none: golang.org/x/mod/semver is executed as SSA"},
		Assumptions: commonAssumptions,
	},
	{
		ID: "C14", Level: "model_checking",
		Harnesses: []HSpec{
			{Dir: "internal/pkg/imports", Fn: "VF_C14_resolve", Perms: true, Tries: 64, Split: 6},
			{Dir: "internal/pkg/imports", Fn: "VF_C14_names", Perms: true, Tries: 64, Split: 8},
			{Dir: "internal/pkg/imports", Fn: "VF_C14_register"},
			{Dir: "internal/pkg/compiler", Fn: "VF_C14_positions", Split: 3, MaxStrLen: [2]int{12, 12}},
		},
		Bounds:      []string{"alias table of 2 entries (aliases in the alias grammar, paths in the import grammar), one or two references in the import grammar, all strings <= 4 (quick) / 6 (thorough) code points; every iteration order of the table's maps"},
		Outside:     []string{"pruning of unused imports by x/tools/imports", "tables of 3+ aliases", "strings beyond the bound"},
		Stubs:       []string{"regexp.ReplaceAllString([^a-zA-Z0-9], \"_\") -> contract derived from the pattern (DESIGN 3.5)"},
		Assumptions: commonAssumptions,
	},
	{
		ID: "C09", Level: "model_checking",
		Harnesses: []HSpec{
			{Dir: "internal/pkg/input", Fn: "VF_C09_ptr_attrs", Split: 4},
			{Dir: "internal/pkg/input", Fn: "VF_C09_lists", Split: 4},
			{Dir: "internal/pkg/input", Fn: "VF_C09_maps", Split: 6},
			{Dir: "internal/pkg/input", Fn: "VF_C09_meta", Split: 6},
			{Dir: "internal/pkg/input", Fn: "VF_C09_services", Split: 6},
			{Dir: "internal/pkg/input", Fn: "VF_C09_identity"},
			{Dir: "internal/cmd/runner", Fn: "VF_C09_fold", Split: 4},
		},
		Bounds:      []string{"three inputs a,b,c; scalar attributes one at a time over all 2^3 nil-patterns with symbolic contents plus the all-present pattern; lists of <= 1 (quick) / 2 (thorough) elements; maps over a universe of two symbolic keys; two services; <= 1 decorator per file"},
		Outside:     []string{"joint nil-patterns of several scalar attributes other than all-present", "byte-identity of the rendered file for split vs unsplit input (follows from these laws plus C08; not rendered here)", "file discovery order (glob/sort) - stubbed environment, see C10"},
		Stubs:       []string{"none for merge"},
		Assumptions: commonAssumptions,
	},
	{
		ID: "C06", Level: "model_checking",
		Harnesses: []HSpec{
			{Dir: "internal/pkg/output", Fn: "VF_C06_params"},
			{Dir: "internal/pkg/output", Fn: "VF_C06_services"},
			{Dir: "internal/pkg/output", Fn: "VF_C06_two", Split: 3},
		},
		Bounds:      []string{"an Output with 2 parameters (one todo), 2 services (one todo), 1 decorator; one or two references with symbolic names <= 3 (quick) / 4 (thorough) code points placed in every position: parameter pattern, constructor argument, call argument, field, decorator argument"},
		Outside:     []string{"more than two simultaneous references", "run-time 'does not exist' errors of the generated container (consequence of this check plus the runtime contract)"},
		Stubs:       []string{"none"},
		Assumptions: commonAssumptions,
	},
	{
		ID: "C07", Level: "model_checking",
		Harnesses: []HSpec{
			{Dir: "internal/pkg/output", Fn: "VF_C07_cycles", Split: 8},
			{Dir: "internal/pkg/output", Fn: "VF_C07_params", Split: 8},
		},
		Bounds:      []string{"cycles: 2 services, each with an optional tag, @service slot and !tagged slot, one decorator (tag, @service slot, !tagged slot); params: 1 service + 2 parameters + decorator with %param% slots; every name a symbolic string of <= 2 (quick) / 3 (thorough) code points, slots may name anything incl. the element itself or a dangling name"},
		Outside:     []string{"how many cycles gonum enumerates and their order (the graph library is summarised: non-empty iff cyclic, one cycle through every node on one)", "larger graphs", "termination of parameter evaluation at run time"},
		Stubs:       []string{"gontainer-helpers/v3/graph (gonum): abstract graph with exact reachability; container/internal/graph (id scheme, normalizeCycle, CircularDepsToError) is executed"},
		Assumptions: commonAssumptions,
	},
	{
		ID: "C05", Level: "model_checking",
		Harnesses: []HSpec{
			{Dir: "internal/pkg/output", Fn: "VF_C05_scopes", Split: 8},
		},
		Bounds:      []string{"2 (quick) / 3 (thorough) services with every assignment of {unset, shared, contextual, non_shared}, optional tag / @service / !tagged slot each, one decorator; names symbolic <= 2 / 3 code points"},
		Outside:     []string{"instance identity over Get histories and resolution of the default scope: implemented by the runtime library, not by gontainer", "the scope keyword -> runtime setter mapping in the template (template stage)"},
		Stubs:       []string{"gontainer-helpers/v3/graph as in C07"},
		Assumptions: commonAssumptions,
	},
	{
		ID: "C08", Level: "model_checking",
		Harnesses: []HSpec{
			{Dir: "internal/pkg/maps", Fn: "VF_C08_keys", Perms: true, Tries: 64},
			{Dir: "internal/pkg/input", Fn: "VF_C08_meta_validators", Perms: true, Tries: 64},
			{Dir: "internal/pkg/input", Fn: "VF_C08_validators", Perms: true, Tries: 64},
			{Dir: "internal/pkg/input", Fn: "VF_C08_merge", Perms: true, Tries: 64},
			{Dir: "internal/pkg/input", Fn: "VF_C08_scope_tables", Perms: true, Tries: 8, InitPerms: true},
			{Dir: "internal/pkg/imports", Fn: "VF_C08_imports", Perms: true, Tries: 64, Split: 6},
			{Dir: "internal/pkg/compiler", Fn: "VF_C08_compile_steps", Perms: true, Tries: 64, Split: 4},
			{Dir: "internal/pkg/output", Fn: "VF_C08_scopes", Perms: true, Tries: 64},
			{Dir: "internal/cmd/runner", Fn: "VF_C08_read_config", Perms: true, Tries: 64},
		},
		Bounds:      []string{"every range-over-map statement of the repository (inventory taken from the SSA on each run) executed twice under independently chosen iteration orders (all permutations), maps of 2 entries (Keys: 2 quick / 3 thorough) with symbolic keys <= 3 code points; results, diagnostics and registration order compared"},
		Outside:     []string{"environment variables and working directory (repo code reads neither)", "maps of more entries", "YAML key order before decoding (gone after yaml.v3 builds Go maps)", "order produced inside yaml.v3 / gonum (stubbed)"},
		Stubs:       []string{"collaborators of the compile steps are recording mocks"},
		Assumptions: commonAssumptions,
		Extra:       rangeInventory,
	},
	{
		ID: "C13", Level: "model_checking",
		Harnesses: []HSpec{
			{Dir: "internal/pkg/compiler", Fn: "VF_C13_getter_table"},
			{Dir: "internal/pkg/compiler", Fn: "VF_C13_meta_names"},
			{Dir: "internal/pkg/compiler", Fn: "VF_C13_service_api"},
			{Dir: "internal/pkg/input", Fn: "VF_C13_collisions", MaxStrLen: [2]int{30, 30}},
		},
		Bounds:      []string{"getter in {absent, empty, symbolic <= 8} x must_getter in {unset,true,false} x default_must_getter in {unset,true,false}; meta names set/unset with symbolic contents; two services; collision check over getters <= 12 (quick) / 24 (thorough) code points against the method set and embedded field of the pinned runtime container"},
		Outside:     []string{"calling the generated getters; the conversion done by copier", "the getter template (template stage, see C01/C17)"},
		Stubs:       []string{"reflect over container.New() -> method set from go/types"},
		Assumptions: commonAssumptions,
	},
	{
		ID: "C02", Level: "model_checking",
		Harnesses: []HSpec{
			{Dir: "internal/pkg/compiler", Fn: "VF_C02_arg_literal"},
			{Dir: "internal/pkg/compiler", Fn: "VF_C02_arg_string", MaxStrLen: [2]int{14, 16}, Split: 4},
			{Dir: "internal/pkg/compiler", Fn: "VF_C02_service", Split: 4},
			{Dir: "internal/pkg/compiler", Fn: "VF_C02_creation"},
		},
		Bounds:      []string{"one argument of every YAML kind (depth 1) or a symbolic string <= 10 (quick) / 12 (thorough) code points through the six-strategy chain; one service with 3 arguments, 2 calls (symbolic method names and wither flags), 2 fields (symbolic names); creation method in {constructor, value, struct value, type} x pointer flag with a symbolic identifier"},
		Outside:     []string{"that the runtime executes a definition as documented (constructor, fields, calls, decorators; what Get returns)", "the constructor template (template stage)", "the wiring as shipped in internal/gontainer (copied in the harness; executed for real in C10/C16)"},
		Stubs:       []string{"exporter.MustExport -> Q / kind(decimal)"},
		Assumptions: commonAssumptions,
	},
	{
		ID: "C04", Level: "model_checking",
		Harnesses: []HSpec{
			{Dir: "internal/pkg/compiler", Fn: "VF_C04_tags_decorators", Split: 3},
			{Dir: "internal/pkg/input", Fn: "VF_C04_tag_yaml"},
		},
		Bounds:      []string{"2 tags with symbolic names and arbitrary int priorities; 2 decorators with symbolic tags/functions and 1-2 arguments; Tag.UnmarshalYAML on every YAML shape (depth 2)"},
		Outside:     []string{"ordering by priority then name, decoration after own calls, payload contents, replacement of the service: behaviour of the runtime library", "the constructor template (template stage)"},
		Stubs:       []string{"exporter"},
		Assumptions: commonAssumptions,
	},
	{
		ID: "C15", Level: "model_checking",
		Harnesses: []HSpec{
			{Dir: "internal/pkg/compiler", Fn: "VF_C15_todo", Split: 3, MaxStrLen: [2]int{16, 16}},
			{Dir: "internal/pkg/compiler", Fn: "VF_C15_params_lazy", MaxStrLen: [2]int{10, 12}},
		},
		Bounds:      []string{"a todo service with arbitrary (also invalid) attributes, symbolic <= 3; a %todo(args)% parameter with symbolic arguments <= 3 and a dependant; one parameter of every YAML scalar kind or a symbolic string <= 5 (quick) / 7 (thorough)"},
		Outside:     []string{"OverrideParam / OverrideService histories and when providers run: behaviour of the runtime library", "_paramTodo in the generated file (template stage)"},
		Stubs:       []string{"exporter"},
		Assumptions: commonAssumptions,
	},
	{
		ID: "C12", Level: "model_checking",
		Harnesses: []HSpec{
			{Dir: "internal/pkg/input", Fn: "VF_C12_unmarshal", Split: 3},
			{Dir: "internal/pkg/compiler", Fn: "VF_C12_pipeline_service", Split: 6, MaxStrLen: [2]int{10, 10}},
			{Dir: "internal/pkg/compiler", Fn: "VF_C12_pipeline_misc", Split: 4, MaxStrLen: [2]int{10, 10}},
			{Dir: "internal/cmd/runner", Fn: "VF_C12_printer"},
		},
		Bounds:      []string{"custom unmarshalers on every YAML value tree of depth <= 2, width <= 2 and on decoder failure; validate -> compile -> output validators on one service / parameter / decorator / meta whose strings (<= 3 quick, 4 thorough) and any-typed positions are arbitrary; aligned printer for every shipped step name at nesting depth 0..2; every executed instruction carries panic, bounds, nil-map, type-assertion and unwinding obligations"},
		Outside:     []string{"yaml.v3's own parser (anchors, aliases, deep nesting, very long names)", "gonum's cycle enumeration time", "text/template, go/format, x/tools/imports", "arbitrary bytes before YAML decoding"},
		Stubs:       []string{"yaml decoder -> nondet callback", "graph library -> abstract graph", "exporter"},
		Assumptions: commonAssumptions,
	},
	{
		ID: "C10", Level: "model_checking",
		Harnesses: []HSpec{
			{Dir: "internal/cmd", Fn: "VF_C10_smoke"},
			{Dir: "internal/cmd", Fn: "VF_C10_contract", Split: 4, MaxStrLen: [2]int{40, 40}},
			{Dir: "internal/cmd", Fn: "VF_C10_quiet", Split: 4, MaxStrLen: [2]int{40, 40}},
		},
		Bounds:      []string{"the real RunE of `build` on the shipped wiring (internal/gontainer.New executed on the runtime-container model): 1-2 patterns over 2 files in 5 layouts x 7 configurations (valid + one per defect class + a double defect) x 6 symbolic fault bits (glob error, read error, YAML error, gofmt error, goimports error, write error) x --stub; --quiet as a 2-safety comparison"},
		Outside:     []string{"cobra's parsing of argv and required-flag enforcement", "the exit-code mapping in main (one if)", "partial writes (os.WriteFile is all-or-nothing in the model)", "text/template execution (opaque rendering), go/format and x/tools/imports (fail or identity)"},
		Stubs:       []string{"filepath.Glob/Clean, os.ReadFile/WriteFile, yaml.Unmarshal, format.Source, imports.Process: harness stubs (engine by name, natively by source rewriting)", "gontainer-helpers container: engine model, validated on every run by comparing stdout of the whole command with the native run", "cobra/pflag flag binding, fatih/color uncoloured"},
		Assumptions: commonAssumptions,
	},
	{
		ID: "C16", Level: "model_checking",
		Harnesses: []HSpec{
			{Dir: "internal/cmd", Fn: "VF_C16_flags", Split: 3, MaxStrLen: [2]int{40, 40}},
		},
		Bounds:      []string{"7 configurations (valid, one per defect class, missing parameter + missing service) x the four flag combinations (symbolic bits), each compared with the flag-less run of the same command on the shipped wiring"},
		Outside:     []string{"as C10"},
		Stubs:       []string{"as C10"},
		Assumptions: commonAssumptions,
	},
	{
		ID: "C01", Level: "other",
		Harnesses: []HSpec{
			{Dir: "internal/pkg/template", Fn: "VF_C01_interpreter", Witnesses: 8},
			{Dir: "internal/pkg/compiler", Fn: "VF_C01_api", MaxStrLen: [2]int{30, 30}, Split: 4},
			{Dir: "internal/pkg/compiler", Fn: "VF_C01_getters", MaxStrLen: [2]int{30, 30}, Split: 4},
			{Dir: "internal/pkg/compiler", Fn: "VF_C01_own_imports", MaxStrLen: [2]int{30, 30}, Split: 3},
			{Dir: "internal/pkg/compiler", Fn: "VF_C01_param_literals", MaxStrLen: [2]int{30, 30}},
		},
		Bounds:      []string{"(under construction)"},
		Assumptions: commonAssumptions,
	},
}
