// vcheck: solver-based checks of gontainer properties (see /verif/DESIGN.md).
package main

import (
	"flag"
	"fmt"
	"os"
	"strings"
	"time"

	"verif/engine"
)

func main() {
	var (
		property = flag.String("property", "", "property id (C01..C20)")
		tier     = flag.String("tier", "", "quick | thorough (default: $VERIF_TIER or quick)")
		harness  = flag.String("harness", "", "dev: run a single harness pkg:Func")
		replay   = flag.String("replay", "", "replay a recorded counterexample directory")
		repo     = flag.String("repo", "/repo", "repository under analysis")
		root     = flag.String("root", "/verif", "verification root")
		logq     = flag.String("logq", "", "dev: write solver queries to this file")
		perms    = flag.Bool("perms", false, "dev: map permutation mode")
		only     = flag.String("only", "", "run only harnesses whose name contains this")
		frontier = flag.Int("frontier", 0, "dev: with -harness, print the decision frontier at this depth")
	)
	flag.Parse()
	if *tier == "" {
		*tier = os.Getenv("VERIF_TIER")
	}
	if *tier != "thorough" {
		*tier = "quick"
	}
	if *replay != "" {
		os.Exit(replayDir(*repo, *root, *replay))
	}
	if *harness != "" {
		devFrontier = *frontier
		os.Exit(devRun(*repo, *root, *harness, *tier, *logq, *perms))
	}
	if *property == "" {
		fmt.Fprintln(os.Stderr, "usage: vcheck -property Cxx [-tier quick|thorough]")
		os.Exit(2)
	}
	os.Exit(runProperty(*repo, *root, *property, *tier, *only))
}

var devFrontier int

func devRun(repo, root, h, tier, logq string, perms bool) int {
	t0 := time.Now()
	ov, err := buildOverlay(repo, root)
	if err != nil {
		fmt.Println("overlay:", err)
		return 2
	}
	prog, err := engine.Load(repo, ov)
	if err != nil {
		fmt.Println("load:", err)
		return 2
	}
	fmt.Printf("loaded in %.1fs\n", time.Since(t0).Seconds())
	parts := strings.SplitN(h, ":", 2)
	pkg := parts[0]
	if !strings.Contains(pkg, "github.com") {
		pkg = "github.com/gontainer/gontainer/" + pkg
	}
	fn := prog.Func(pkg, parts[1])
	if fn == nil {
		fmt.Println("no such harness", h)
		return 2
	}
	s := engine.NewSolver(20000)
	defer s.Close()
	if logq != "" {
		f, _ := os.Create(logq)
		defer f.Close()
		s.Log = f
	}
	m := engine.NewMachine(prog.Prog, s, engine.Config{Tier: tier, MapPerms: perms}, nil)
	t1 := time.Now()
	if devFrontier > 0 {
		r, f := m.RunFrontier(fn, devFrontier)
		fmt.Printf("frontier depth %d: %d prefixes, %d complete paths\n", devFrontier, len(f), r.Paths)
		for i, p := range f {
			if i < 40 {
				fmt.Println(p)
			}
		}
		return 0
	}
	res := m.RunHarness(fn)
	fmt.Printf("harness %s: paths=%d pruned=%d steps=%d decisions=%d asserts=%d reached=%v in %.1fs\n",
		res.Name, res.Paths, res.Pruned, res.Steps, res.Decisions, res.Asserts, res.Reached, time.Since(t1).Seconds())
	fmt.Printf("solver: %+v\n", s.Stats)
	for _, v := range res.Violations {
		fmt.Printf("VIOLATION-CANDIDATE %s: %s\n  model: %v\n  tags: %v\n", v.Kind, v.Msg, fmtModel(v), v.Tags)
	}
	for _, i := range res.Inconclusive {
		fmt.Println("INCONCLUSIVE:", i)
	}
	if len(res.Inconclusive) > 0 {
		return 2
	}
	if len(res.Violations) > 0 {
		return 1
	}
	return 0
}

func fmtModel(v engine.Violation) string {
	var b strings.Builder
	for _, k := range v.Order {
		mv, ok := v.Model[k]
		if !ok {
			continue
		}
		switch mv.Sort {
		case engine.SString:
			fmt.Fprintf(&b, "%s=%q ", k, mv.S)
		case engine.SInt:
			fmt.Fprintf(&b, "%s=%d ", k, mv.I)
		default:
			fmt.Fprintf(&b, "%s=%v ", k, mv.B)
		}
	}
	return b.String()
}
