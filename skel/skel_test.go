package skel

import (
	"go/importer"
	"strings"
	"os"
	"testing"
)

func TestExtractShipped(t *testing.T) {
	b, err := os.ReadFile("/repo/internal/gontainer/gontainer.go")
	if err != nil {
		t.Skip(err)
	}
	e := Extract(string(b))
	if e.ParseErr != "" || e.TypeName != "gontainer" || e.CtorName != "New" || len(e.Blocks) < 20 || len(e.Methods) < 12 || len(e.Iface) < 12 {
		t.Fatalf("unexpected extraction: %+v", e)
	}
	t.Logf("pkg=%s type=%s embedded=%s ctor=%s blocks=%d methods=%d iface=%d ctorcalls=%d helpers=%d", e.Package, e.TypeName, e.Embedded, e.CtorName, len(e.Blocks), len(e.Methods), len(e.Iface), len(e.CtorCalls), len(e.Helpers))
	t.Logf("block0=%+v", e.Blocks[0])
}

func TestTypeErrorsFixtures(t *testing.T) {
	src := `package main

import (
	i0_ctx "context"
	i1_pkg "example.com/user/pkg"
	i2_unused "example.com/unused"
)

type G struct{}

func (c *G) Get() (result *i1_pkg.X, err error) { return }
func (c *G) Must() *i1_pkg.X {
	r, err := c.Get()
	if err != nil {
		panic(err.Error())
	}
	return r
}
func (c *G) InCtx(ctx i0_ctx.Context) Local { var l Local; _ = i1_pkg.NewX; _ = NewLocal; return l }
`
	allow := func(n string) bool { return n == "Local" || n == "NewLocal" }
	// the unused import is reported until it is pruned, as the code formatter does
	if errs := TypeErrors(src, importer.Default(), allow); len(errs) != 1 || !strings.Contains(errs[0], "i2_unused") {
		t.Fatalf("want exactly the unused import reported, got %v", errs)
	}
	src = PruneImports(src)
	if strings.Contains(src, "i2_unused") || !strings.Contains(src, "i1_pkg") || !strings.Contains(src, "i0_ctx") {
		t.Fatalf("pruning removed the wrong imports:\n%s", src)
	}
	if errs := TypeErrors(src, importer.Default(), allow); len(errs) != 0 {
		t.Fatalf("valid file reported: %v", errs)
	}
	bad := strings.Replace(src, "return r\n", "return &r\n", 1)
	errs := TypeErrors(bad, importer.Default(), allow)
	if len(errs) != 1 || !strings.Contains(errs[0], "cannot use &r") {
		t.Fatalf("want one type error about &r, got %v", errs)
	}
	// an undefined identifier the configuration does not name is reported
	errs = TypeErrors(src, importer.Default(), func(string) bool { return false })
	if len(errs) == 0 {
		t.Fatalf("undefined Local / NewLocal not reported")
	}
	// a method declared twice
	dup := src + "\nfunc (c *G) Get() {}\n"
	errs = TypeErrors(dup, importer.Default(), allow)
	if len(errs) == 0 || !strings.Contains(strings.Join(errs, ";"), "already declared") {
		t.Fatalf("duplicate method not reported: %v", errs)
	}
}
