package skel

import (
	"os"
	"testing"
)

func TestExtractShipped(t *testing.T) {
	b, err := os.ReadFile("/repo/internal/gontainer/gontainer.go")
	if err != nil {
		t.Skip(err)
	}
	e := Extract(string(b))
	if e.ParseErr != "" || e.TypeName != "gontainer" || e.CtorName != "New" || len(e.Blocks) < 20 || len(e.Methods) < 12 || len(e.Iface) < 12 {
		t.Fatalf("unexpected extraction: %+v", e)
	}
	t.Logf("pkg=%s type=%s embedded=%s ctor=%s blocks=%d methods=%d iface=%d ctorcalls=%d helpers=%d", e.Package, e.TypeName, e.Embedded, e.CtorName, len(e.Blocks), len(e.Methods), len(e.Iface), len(e.CtorCalls), len(e.Helpers))
	t.Logf("block0=%+v", e.Blocks[0])
}
