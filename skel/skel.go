// Package skel recovers, from the text of a generated container file, the
// definition it expresses: package, imports, container type, declared methods,
// the constructor's runtime-API calls per service block, parameters and
// decorators. It only uses go/parser, so it works the same on a real generated
// file and on the engine's skeleton (the same text with placeholders standing
// for symbolic holes).
package skel

import (
	"go/ast"
	"go/parser"
	"go/token"
	"go/types"
	"strings"
)

type Call struct {
	Recv string // receiver / qualifier expression ("" for plain calls)
	Fn   string
	Args []string // source text of each argument
}

type Block struct {
	Name  string // first argument of the closing c.OverrideService(name, s)
	Calls []Call // calls on s, in order
}

type Method struct {
	Name    string
	Recv    string // receiver type text ("" for functions and interface methods)
	Params  string // source text of the parameter list, without names normalised
	Results string // source text of the result list
	Body    string // source text of the body
	Panics  bool   // body is exactly one panic("stub") statement
	Returns []string
}

type Import struct{ Alias, Path string }

type Emitted struct {
	ParseErr  string
	BuildTags []string
	Package   string
	Imports   []Import
	TypeName  string
	Embedded  string
	Iface     []Method // methods of the interface literal asserted in init()
	Methods   []Method // methods declared on the container type
	Funcs     []Method // package-level functions (constructor, init)
	CtorName  string
	CtorCalls []Call   // calls made directly in the constructor body (OverrideParam, AddDecorator, ...)
	Helpers   []string // "name := expr" short declarations at the top level of the constructor
	Blocks    []Block
	Idents    []string // every identifier token of the file (deduplicated, in order)
	Selectors []string // every qualified identifier X.Sel with X a plain identifier: "X.Sel"
	Comments  []string
	// Unresolved: identifiers used but declared neither in the file (locals,
	// parameters, named results, package-level declarations, imports) nor in
	// Go's universe scope — i.e. what other files of the package must declare.
	Unresolved []string
}

type extractor struct {
	src  string
	fset *token.FileSet
}

func (x *extractor) text(n ast.Node) string {
	if n == nil {
		return ""
	}
	s, e := x.fset.Position(n.Pos()).Offset, x.fset.Position(n.End()).Offset
	if s < 0 || e > len(x.src) || s > e {
		return ""
	}
	return x.src[s:e]
}

func (x *extractor) fieldList(fl *ast.FieldList) string {
	if fl == nil {
		return ""
	}
	var parts []string
	for _, f := range fl.List {
		t := x.text(f.Type)
		if len(f.Names) == 0 {
			parts = append(parts, t)
		}
		for range f.Names {
			parts = append(parts, t)
		}
	}
	return strings.Join(parts, ", ")
}

func (x *extractor) call(e ast.Expr) (Call, bool) {
	ce, ok := e.(*ast.CallExpr)
	if !ok {
		return Call{}, false
	}
	c := Call{}
	switch f := ce.Fun.(type) {
	case *ast.SelectorExpr:
		c.Recv, c.Fn = x.text(f.X), f.Sel.Name
	case *ast.Ident:
		c.Fn = f.Name
	default:
		c.Fn = x.text(ce.Fun)
	}
	for _, a := range ce.Args {
		c.Args = append(c.Args, x.text(a))
	}
	return c, true
}

func (x *extractor) method(name string, recv *ast.FieldList, ft *ast.FuncType, body *ast.BlockStmt) Method {
	m := Method{Name: name, Params: x.fieldList(ft.Params), Results: x.fieldList(ft.Results)}
	if recv != nil && len(recv.List) == 1 {
		m.Recv = x.text(recv.List[0].Type)
	}
	if body != nil {
		m.Body = x.text(body)
		if len(body.List) == 1 {
			if es, ok := body.List[0].(*ast.ExprStmt); ok {
				if c, ok := x.call(es.X); ok && c.Recv == "" && c.Fn == "panic" && len(c.Args) == 1 && c.Args[0] == `"stub"` {
					m.Panics = true
				}
			}
		}
		ast.Inspect(body, func(n ast.Node) bool {
			if _, isLit := n.(*ast.FuncLit); isLit {
				return false
			}
			if r, ok := n.(*ast.ReturnStmt); ok {
				var rs []string
				for _, e := range r.Results {
					rs = append(rs, x.text(e))
				}
				m.Returns = append(m.Returns, strings.Join(rs, ", "))
			}
			return true
		})
	}
	return m
}

// Extract parses src and recovers the emitted definition.
func Extract(src string) Emitted {
	var out Emitted
	fset := token.NewFileSet()
	f, err := parser.ParseFile(fset, "generated.go", src, parser.ParseComments)
	if err != nil {
		out.ParseErr = err.Error()
		if f == nil {
			return out
		}
	}
	x := &extractor{src: src, fset: fset}
	out.Package = f.Name.Name
	for _, cg := range f.Comments {
		for _, c := range cg.List {
			out.Comments = append(out.Comments, c.Text)
			if strings.HasPrefix(c.Text, "//go:build ") && c.Pos() < f.Package {
				out.BuildTags = append(out.BuildTags, strings.TrimSpace(strings.TrimPrefix(c.Text, "//go:build ")))
			}
		}
	}
	for _, im := range f.Imports {
		i := Import{Path: strings.Trim(im.Path.Value, `"`)}
		if im.Name != nil {
			i.Alias = im.Name.Name
		}
		out.Imports = append(out.Imports, i)
	}
	seenIdent := map[string]bool{}
	seenSel := map[string]bool{}
	ast.Inspect(f, func(n ast.Node) bool {
		switch v := n.(type) {
		case *ast.Ident:
			if !seenIdent[v.Name] {
				seenIdent[v.Name] = true
				out.Idents = append(out.Idents, v.Name)
			}
		case *ast.SelectorExpr:
			if id, ok := v.X.(*ast.Ident); ok {
				k := id.Name + "." + v.Sel.Name
				if !seenSel[k] {
					seenSel[k] = true
					out.Selectors = append(out.Selectors, k)
				}
			}
		}
		return true
	})
	seenU := map[string]bool{}
	for _, im := range out.Imports { // the parser leaves imported package names unresolved
		name := im.Alias
		if name == "" {
			name = im.Path[strings.LastIndex(im.Path, "/")+1:]
		}
		seenU[name] = true
	}
	for _, id := range f.Unresolved {
		if types.Universe.Lookup(id.Name) != nil || id.Name == "_" || seenU[id.Name] {
			continue
		}
		seenU[id.Name] = true
		out.Unresolved = append(out.Unresolved, id.Name)
	}
	for _, d := range f.Decls {
		switch d := d.(type) {
		case *ast.GenDecl:
			for _, sp := range d.Specs {
				ts, ok := sp.(*ast.TypeSpec)
				if !ok {
					continue
				}
				st, ok := ts.Type.(*ast.StructType)
				if !ok || out.TypeName != "" {
					continue
				}
				out.TypeName = ts.Name.Name
				if st.Fields != nil && len(st.Fields.List) == 1 && len(st.Fields.List[0].Names) == 0 {
					out.Embedded = x.text(st.Fields.List[0].Type)
				}
			}
		case *ast.FuncDecl:
			m := x.method(d.Name.Name, d.Recv, d.Type, d.Body)
			if d.Recv != nil {
				out.Methods = append(out.Methods, m)
				continue
			}
			out.Funcs = append(out.Funcs, m)
			if d.Name.Name == "init" && d.Body != nil {
				ast.Inspect(d.Body, func(n ast.Node) bool {
					it, ok := n.(*ast.InterfaceType)
					if !ok || it.Methods == nil {
						return true
					}
					for _, fld := range it.Methods.List {
						ft, ok := fld.Type.(*ast.FuncType)
						if !ok || len(fld.Names) != 1 {
							continue
						}
						out.Iface = append(out.Iface, x.method(fld.Names[0].Name, nil, ft, nil))
					}
					return false
				})
				continue
			}
			if d.Body == nil || d.Type.Results == nil || len(d.Type.Results.List) != 1 {
				continue
			}
			// the constructor: the niladic function returning *TypeName
			out.CtorName = d.Name.Name
			for _, st := range d.Body.List {
				switch s := st.(type) {
				case *ast.AssignStmt:
					if s.Tok == token.DEFINE && len(s.Lhs) == 1 && len(s.Rhs) == 1 {
						out.Helpers = append(out.Helpers, x.text(s.Lhs[0])+" := "+x.text(s.Rhs[0]))
					}
				case *ast.ExprStmt:
					if c, ok := x.call(s.X); ok {
						out.CtorCalls = append(out.CtorCalls, c)
					}
				case *ast.BlockStmt:
					b := Block{}
					for _, bs := range s.List {
						es, ok := bs.(*ast.ExprStmt)
						if !ok {
							continue
						}
						c, ok := x.call(es.X)
						if !ok {
							continue
						}
						if c.Fn == "OverrideService" && len(c.Args) == 2 {
							b.Name = c.Args[0]
							continue
						}
						b.Calls = append(b.Calls, c)
					}
					out.Blocks = append(out.Blocks, b)
				}
			}
		}
	}
	return out
}

// TypeErrors type-checks src (a generated container file, or its skeleton)
// against the packages the importer knows (the pinned runtime and the standard
// library). What the configuration brings along is declared as a fixture
// first: an import the importer does not know is a user package, and every
// member of it the file names is declared in it - as a struct type where the
// file uses it in a type position, as a value of type interface{} elsewhere;
// an undefined identifier of the file's own package is declared the same way
// if allow accepts it (a current-package symbol the configuration names, or a
// skeleton hole). Then the file is checked in full (unused imports included:
// the text is what the code formatter returns, after its pruning step).
func TypeErrors(src string, imp types.Importer, allow func(name string) bool) []string {
	fset := token.NewFileSet()
	f, err := parser.ParseFile(fset, "generated.go", src, parser.ParseComments)
	if err != nil {
		return []string{"parse: " + err.Error()}
	}
	typePos := typePositions(f)
	// local name -> fake package
	fakes := map[string]*types.Package{}
	byPath := map[string]*types.Package{}
	wrapped := importerFunc(func(path string) (*types.Package, error) {
		if imp != nil {
			if p, err := imp.Import(path); err == nil && p != nil {
				return p, nil
			}
		}
		if p, ok := byPath[path]; ok {
			return p, nil
		}
		name := path[strings.LastIndex(path, "/")+1:]
		p := types.NewPackage(path, name)
		byPath[path] = p
		return p, nil
	})
	// declare what the file names in user packages
	for _, im := range f.Imports {
		path := strings.Trim(im.Path.Value, `"`)
		if imp != nil {
			if p, err := imp.Import(path); err == nil && p != nil {
				continue
			}
		}
		local := path[strings.LastIndex(path, "/")+1:]
		if im.Name != nil {
			local = im.Name.Name
		}
		p, _ := wrapped.Import(path)
		fakes[local] = p
	}
	any := types.NewInterfaceType(nil, nil)
	declare := func(pkg *types.Package, name string, isType bool) {
		if pkg.Scope().Lookup(name) != nil {
			return
		}
		if isType {
			tn := types.NewTypeName(token.NoPos, pkg, name, nil)
			types.NewNamed(tn, types.NewStruct(nil, nil), nil)
			pkg.Scope().Insert(tn)
		} else {
			pkg.Scope().Insert(types.NewVar(token.NoPos, pkg, name, any))
		}
	}
	ast.Inspect(f, func(n ast.Node) bool {
		if se, ok := n.(*ast.SelectorExpr); ok {
			if id, ok := se.X.(*ast.Ident); ok && id.Obj == nil {
				if p, ok := fakes[id.Name]; ok {
					declare(p, se.Sel.Name, typePos[se])
				}
			}
		}
		return true
	})
	for _, p := range fakes {
		p.MarkComplete()
	}
	// undefined identifiers of the file's own package the caller accepts
	var extra strings.Builder
	extra.WriteString("package " + f.Name.Name + "\n")
	seen := map[string]bool{}
	for _, id := range f.Unresolved {
		if seen[id.Name] || types.Universe.Lookup(id.Name) != nil || allow == nil || !allow(id.Name) {
			continue
		}
		seen[id.Name] = true
		if typePos[id] {
			extra.WriteString("type " + id.Name + " struct{}\n")
		} else {
			extra.WriteString("var " + id.Name + " interface{}\n")
		}
	}
	files := []*ast.File{f}
	if len(seen) > 0 {
		if ef, err := parser.ParseFile(fset, "fixtures.go", extra.String(), 0); err == nil {
			files = append(files, ef)
		}
	}
	var out []string
	conf := types.Config{Importer: wrapped, Error: func(e error) {
		msg := e.Error()
		if te, ok := e.(types.Error); ok {
			msg = te.Msg
		}
		out = append(out, msg)
	}}
	_, _ = conf.Check(f.Name.Name, fset, files, nil)
	return out
}

// typePositions: the identifiers and qualified identifiers the file uses where
// the grammar wants a type.
func typePositions(f *ast.File) map[ast.Expr]bool {
	out := map[ast.Expr]bool{}
	var mark func(e ast.Expr)
	mark = func(e ast.Expr) {
		switch x := e.(type) {
		case *ast.Ident, *ast.SelectorExpr:
			out[e] = true
		case *ast.StarExpr:
			mark(x.X)
		case *ast.ParenExpr:
			mark(x.X)
		case *ast.ArrayType:
			mark(x.Elt)
		case *ast.MapType:
			mark(x.Key)
			mark(x.Value)
		case *ast.ChanType:
			mark(x.Value)
		case *ast.Ellipsis:
			if x.Elt != nil {
				mark(x.Elt)
			}
		}
	}
	ast.Inspect(f, func(n ast.Node) bool {
		switch x := n.(type) {
		case *ast.Field:
			mark(x.Type)
		case *ast.CompositeLit:
			if x.Type != nil {
				mark(x.Type)
			}
		case *ast.ValueSpec:
			if x.Type != nil {
				mark(x.Type)
			}
		case *ast.TypeSpec:
			mark(x.Type)
		case *ast.TypeAssertExpr:
			if x.Type != nil {
				mark(x.Type)
			}
		case *ast.CallExpr:
			if id, ok := x.Fun.(*ast.Ident); ok && (id.Name == "new" || id.Name == "make") && len(x.Args) > 0 {
				mark(x.Args[0])
			}
			if pe, ok := x.Fun.(*ast.ParenExpr); ok {
				if _, ok := pe.X.(*ast.StarExpr); ok {
					mark(pe.X)
				}
			}
		}
		return true
	})
	return out
}

type importerFunc func(path string) (*types.Package, error)

func (f importerFunc) Import(path string) (*types.Package, error) { return f(path) }

// PruneImports removes the import specs whose local name the file never uses,
// which is the part of golang.org/x/tools/imports.Process the generator relies
// on (every generated import has an explicit, unique local name). Lines are
// deleted in place; nothing else is reformatted. Text that does not parse is
// returned unchanged.
func PruneImports(src string) string {
	fset := token.NewFileSet()
	f, err := parser.ParseFile(fset, "generated.go", src, parser.ParseComments)
	if err != nil {
		return src
	}
	used := map[string]bool{}
	ast.Inspect(f, func(n ast.Node) bool {
		if se, ok := n.(*ast.SelectorExpr); ok {
			if id, ok := se.X.(*ast.Ident); ok && id.Obj == nil {
				used[id.Name] = true
			}
		}
		return true
	})
	type span struct{ from, to int }
	var cut []span
	for _, im := range f.Imports {
		if im.Name == nil || im.Name.Name == "_" || im.Name.Name == "." || used[im.Name.Name] {
			continue
		}
		from, to := fset.Position(im.Pos()).Offset, fset.Position(im.End()).Offset
		// the whole line
		for from > 0 && src[from-1] != '\n' {
			from--
		}
		for to < len(src) && src[to] != '\n' {
			to++
		}
		if to < len(src) {
			to++
		}
		cut = append(cut, span{from, to})
	}
	if len(cut) == 0 {
		return src
	}
	var b strings.Builder
	last := 0
	for _, c := range cut {
		if c.from < last {
			continue
		}
		b.WriteString(src[last:c.from])
		last = c.to
	}
	b.WriteString(src[last:])
	return b.String()
}
