// Package skel recovers, from the text of a generated container file, the
// definition it expresses: package, imports, container type, declared methods,
// the constructor's runtime-API calls per service block, parameters and
// decorators. It only uses go/parser, so it works the same on a real generated
// file and on the engine's skeleton (the same text with placeholders standing
// for symbolic holes).
package skel

import (
	"go/ast"
	"go/parser"
	"go/token"
	"go/types"
	"strings"
)

type Call struct {
	Recv string // receiver / qualifier expression ("" for plain calls)
	Fn   string
	Args []string // source text of each argument
}

type Block struct {
	Name  string // first argument of the closing c.OverrideService(name, s)
	Calls []Call // calls on s, in order
}

type Method struct {
	Name    string
	Recv    string // receiver type text ("" for functions and interface methods)
	Params  string // source text of the parameter list, without names normalised
	Results string // source text of the result list
	Body    string // source text of the body
	Panics  bool   // body is exactly one panic("stub") statement
	Returns []string
}

type Import struct{ Alias, Path string }

type Emitted struct {
	ParseErr  string
	BuildTags []string
	Package   string
	Imports   []Import
	TypeName  string
	Embedded  string
	Iface     []Method // methods of the interface literal asserted in init()
	Methods   []Method // methods declared on the container type
	Funcs     []Method // package-level functions (constructor, init)
	CtorName  string
	CtorCalls []Call   // calls made directly in the constructor body (OverrideParam, AddDecorator, ...)
	Helpers   []string // "name := expr" short declarations at the top level of the constructor
	Blocks    []Block
	Idents    []string // every identifier token of the file (deduplicated, in order)
	Selectors []string // every qualified identifier X.Sel with X a plain identifier: "X.Sel"
	Comments  []string
	// Unresolved: identifiers used but declared neither in the file (locals,
	// parameters, named results, package-level declarations, imports) nor in
	// Go's universe scope — i.e. what other files of the package must declare.
	Unresolved []string
}

type extractor struct {
	src  string
	fset *token.FileSet
}

func (x *extractor) text(n ast.Node) string {
	if n == nil {
		return ""
	}
	s, e := x.fset.Position(n.Pos()).Offset, x.fset.Position(n.End()).Offset
	if s < 0 || e > len(x.src) || s > e {
		return ""
	}
	return x.src[s:e]
}

func (x *extractor) fieldList(fl *ast.FieldList) string {
	if fl == nil {
		return ""
	}
	var parts []string
	for _, f := range fl.List {
		t := x.text(f.Type)
		if len(f.Names) == 0 {
			parts = append(parts, t)
		}
		for range f.Names {
			parts = append(parts, t)
		}
	}
	return strings.Join(parts, ", ")
}

func (x *extractor) call(e ast.Expr) (Call, bool) {
	ce, ok := e.(*ast.CallExpr)
	if !ok {
		return Call{}, false
	}
	c := Call{}
	switch f := ce.Fun.(type) {
	case *ast.SelectorExpr:
		c.Recv, c.Fn = x.text(f.X), f.Sel.Name
	case *ast.Ident:
		c.Fn = f.Name
	default:
		c.Fn = x.text(ce.Fun)
	}
	for _, a := range ce.Args {
		c.Args = append(c.Args, x.text(a))
	}
	return c, true
}

func (x *extractor) method(name string, recv *ast.FieldList, ft *ast.FuncType, body *ast.BlockStmt) Method {
	m := Method{Name: name, Params: x.fieldList(ft.Params), Results: x.fieldList(ft.Results)}
	if recv != nil && len(recv.List) == 1 {
		m.Recv = x.text(recv.List[0].Type)
	}
	if body != nil {
		m.Body = x.text(body)
		if len(body.List) == 1 {
			if es, ok := body.List[0].(*ast.ExprStmt); ok {
				if c, ok := x.call(es.X); ok && c.Recv == "" && c.Fn == "panic" && len(c.Args) == 1 && c.Args[0] == `"stub"` {
					m.Panics = true
				}
			}
		}
		ast.Inspect(body, func(n ast.Node) bool {
			if _, isLit := n.(*ast.FuncLit); isLit {
				return false
			}
			if r, ok := n.(*ast.ReturnStmt); ok {
				var rs []string
				for _, e := range r.Results {
					rs = append(rs, x.text(e))
				}
				m.Returns = append(m.Returns, strings.Join(rs, ", "))
			}
			return true
		})
	}
	return m
}

// Extract parses src and recovers the emitted definition.
func Extract(src string) Emitted {
	var out Emitted
	fset := token.NewFileSet()
	f, err := parser.ParseFile(fset, "generated.go", src, parser.ParseComments)
	if err != nil {
		out.ParseErr = err.Error()
		if f == nil {
			return out
		}
	}
	x := &extractor{src: src, fset: fset}
	out.Package = f.Name.Name
	for _, cg := range f.Comments {
		for _, c := range cg.List {
			out.Comments = append(out.Comments, c.Text)
			if strings.HasPrefix(c.Text, "//go:build ") && c.Pos() < f.Package {
				out.BuildTags = append(out.BuildTags, strings.TrimSpace(strings.TrimPrefix(c.Text, "//go:build ")))
			}
		}
	}
	for _, im := range f.Imports {
		i := Import{Path: strings.Trim(im.Path.Value, `"`)}
		if im.Name != nil {
			i.Alias = im.Name.Name
		}
		out.Imports = append(out.Imports, i)
	}
	seenIdent := map[string]bool{}
	seenSel := map[string]bool{}
	ast.Inspect(f, func(n ast.Node) bool {
		switch v := n.(type) {
		case *ast.Ident:
			if !seenIdent[v.Name] {
				seenIdent[v.Name] = true
				out.Idents = append(out.Idents, v.Name)
			}
		case *ast.SelectorExpr:
			if id, ok := v.X.(*ast.Ident); ok {
				k := id.Name + "." + v.Sel.Name
				if !seenSel[k] {
					seenSel[k] = true
					out.Selectors = append(out.Selectors, k)
				}
			}
		}
		return true
	})
	seenU := map[string]bool{}
	for _, im := range out.Imports { // the parser leaves imported package names unresolved
		name := im.Alias
		if name == "" {
			name = im.Path[strings.LastIndex(im.Path, "/")+1:]
		}
		seenU[name] = true
	}
	for _, id := range f.Unresolved {
		if types.Universe.Lookup(id.Name) != nil || id.Name == "_" || seenU[id.Name] {
			continue
		}
		seenU[id.Name] = true
		out.Unresolved = append(out.Unresolved, id.Name)
	}
	for _, d := range f.Decls {
		switch d := d.(type) {
		case *ast.GenDecl:
			for _, sp := range d.Specs {
				ts, ok := sp.(*ast.TypeSpec)
				if !ok {
					continue
				}
				st, ok := ts.Type.(*ast.StructType)
				if !ok || out.TypeName != "" {
					continue
				}
				out.TypeName = ts.Name.Name
				if st.Fields != nil && len(st.Fields.List) == 1 && len(st.Fields.List[0].Names) == 0 {
					out.Embedded = x.text(st.Fields.List[0].Type)
				}
			}
		case *ast.FuncDecl:
			m := x.method(d.Name.Name, d.Recv, d.Type, d.Body)
			if d.Recv != nil {
				out.Methods = append(out.Methods, m)
				continue
			}
			out.Funcs = append(out.Funcs, m)
			if d.Name.Name == "init" && d.Body != nil {
				ast.Inspect(d.Body, func(n ast.Node) bool {
					it, ok := n.(*ast.InterfaceType)
					if !ok || it.Methods == nil {
						return true
					}
					for _, fld := range it.Methods.List {
						ft, ok := fld.Type.(*ast.FuncType)
						if !ok || len(fld.Names) != 1 {
							continue
						}
						out.Iface = append(out.Iface, x.method(fld.Names[0].Name, nil, ft, nil))
					}
					return false
				})
				continue
			}
			if d.Body == nil || d.Type.Results == nil || len(d.Type.Results.List) != 1 {
				continue
			}
			// the constructor: the niladic function returning *TypeName
			out.CtorName = d.Name.Name
			for _, st := range d.Body.List {
				switch s := st.(type) {
				case *ast.AssignStmt:
					if s.Tok == token.DEFINE && len(s.Lhs) == 1 && len(s.Rhs) == 1 {
						out.Helpers = append(out.Helpers, x.text(s.Lhs[0])+" := "+x.text(s.Rhs[0]))
					}
				case *ast.ExprStmt:
					if c, ok := x.call(s.X); ok {
						out.CtorCalls = append(out.CtorCalls, c)
					}
				case *ast.BlockStmt:
					b := Block{}
					for _, bs := range s.List {
						es, ok := bs.(*ast.ExprStmt)
						if !ok {
							continue
						}
						c, ok := x.call(es.X)
						if !ok {
							continue
						}
						if c.Fn == "OverrideService" && len(c.Args) == 2 {
							b.Name = c.Args[0]
							continue
						}
						b.Calls = append(b.Calls, c)
					}
					out.Blocks = append(out.Blocks, b)
				}
			}
		}
	}
	return out
}

// TypeErrors type-checks src (a generated container file, or its skeleton)
// against the packages the importer knows. Imports the importer does not know
// are treated as the user's packages: they become empty fixture packages and
// every complaint about them is dropped, as are complaints about placeholder
// identifiers (skeleton holes), unused imports (pruned later by goimports) and
// current-package symbols named in allowUndefined.
func TypeErrors(src string, imp types.Importer, allowUndefined func(name string) bool) []string {
	fset := token.NewFileSet()
	f, err := parser.ParseFile(fset, "generated.go", src, parser.ParseComments)
	if err != nil {
		return []string{"parse: " + err.Error()}
	}
	var fakes []string
	wrapped := importerFunc(func(path string) (*types.Package, error) {
		if imp != nil {
			if p, err := imp.Import(path); err == nil && p != nil {
				return p, nil
			}
		}
		name := path[strings.LastIndex(path, "/")+1:]
		p := types.NewPackage(path, name)
		p.MarkComplete()
		fakes = append(fakes, name)
		for _, im := range f.Imports {
			if strings.Trim(im.Path.Value, `"`) == path && im.Name != nil {
				fakes = append(fakes, im.Name.Name)
			}
		}
		return p, nil
	})
	var out []string
	conf := types.Config{Importer: wrapped, Error: func(e error) {
		msg := e.Error()
		if te, ok := e.(types.Error); ok {
			msg = te.Msg
		}
		if (strings.Contains(msg, "imported") && strings.Contains(msg, "not used")) || strings.Contains(msg, "VFH") || strings.Contains(msg, "VFQ") {
			return
		}
		for _, fk := range fakes {
			if strings.Contains(msg, fk+".") || strings.Contains(msg, "undefined: "+fk) {
				return
			}
		}
		if strings.HasPrefix(msg, "undefined: ") && allowUndefined != nil && allowUndefined(strings.TrimPrefix(msg, "undefined: ")) {
			return
		}
		out = append(out, msg)
	}}
	_, _ = conf.Check(f.Name.Name, fset, []*ast.File{f}, nil)
	return out
}

type importerFunc func(path string) (*types.Package, error)

func (f importerFunc) Import(path string) (*types.Package, error) { return f(path) }
